"""Child process: runs one shard of a property check and writes JSONL records."""

from __future__ import annotations

import hashlib
import importlib
import json
import os
import sys
import traceback

HERE = os.path.dirname(os.path.dirname(os.path.dirname(os.path.abspath(__file__))))


def setup_paths() -> None:
    deps = os.path.join(HERE, ".deps")
    if os.path.isdir(deps) and deps not in sys.path:
        # appended, never prepended: nothing the repository imports may be shadowed
        sys.path.append(deps)


class Emitter:
    def __init__(self, path: str) -> None:
        self.fd = open(path, "w", buffering=1)
        self.counts: dict[str, int] = {}
        self.viol_counts: dict[str, int] = {}
        self.n_cases = 0
        self.n_samples = 0
        self.sigs: set[str] = set()

    def __call__(self, record: dict) -> None:
        self.fd.write(json.dumps(record, default=_default) + "\n")

    def case(self, sig=None, sample=None) -> None:
        # aggregated per shard: number of evaluated cases, the set of distinct non-trivial signatures
        # (as 64-bit digests) and a few written-out samples
        self.n_cases += 1
        if sig is not None:
            self.sigs.add(hashlib.blake2b(str(sig).encode("utf-8", "replace"), digest_size=8).hexdigest())
        if sample is not None and self.n_samples < 4:
            self.n_samples += 1
            self({"k": "sample", "sample": sample})

    def viol(self, key: str, what: str, case) -> None:
        # full witnesses for the first few per mechanism key, a count for the rest
        n = self.viol_counts.get(key, 0)
        self.viol_counts[key] = n + 1
        if n < 3:
            self({"k": "viol", "key": key, "what": what, "case": case})

    def count(self, name: str, n: int = 1) -> None:
        self.counts[name] = self.counts.get(name, 0) + n

    def distinct(self, name: str, value) -> None:
        self({"k": "set", "name": name, "v": str(value)})

    def inconclusive(self, why: str) -> None:
        try:
            from vmon.instr import engine

            slow = engine.LAST.get("slow")
            engine.LAST["slow"] = False
        except Exception:
            slow = False
        if slow:
            # the watchdog ended a run that was still making progress: slow, not stuck - not judged, and counted
            self.count("slow_runs_not_judged")
            self({"k": "slow", "why": why})
            return
        self({"k": "inconclusive", "why": why})

    def close(self) -> None:
        sigs = sorted(self.sigs)
        self({"k": "cases", "n": self.n_cases, "sigs": sigs[:50000]})
        for start in range(50000, len(sigs), 50000):
            self({"k": "cases", "n": 0, "sigs": sigs[start : start + 50000]})
        for name, n in self.counts.items():
            self({"k": "count", "name": name, "n": n})
        for key, n in self.viol_counts.items():
            if n > 3:
                self({"k": "violmore", "key": key, "n": n - 3})
        self.fd.close()


def _default(obj):
    if isinstance(obj, bytes):
        return {"$bytes": obj.decode("latin-1")}
    if isinstance(obj, (set, frozenset)):
        return sorted(obj, key=repr)
    return repr(obj)


def main() -> int:
    prop_id, spec_path, out_path = sys.argv[1:4]
    setup_paths()
    with open(spec_path) as fd:
        spec = json.load(fd)
    emit = Emitter(out_path)
    mod = importlib.import_module(f"vmon.props.{prop_id.lower()}")
    code = 0
    try:
        mod.run_shard(spec, emit)
    except BaseException:  # harness trouble is never a property verdict
        emit.inconclusive("shard crashed: " + traceback.format_exc()[-1500:])
        traceback.print_exc()
        code = 3
    finally:
        emit.close()
    sys.stdout.flush()
    sys.stderr.flush()
    os._exit(code)


if __name__ == "__main__":
    main()

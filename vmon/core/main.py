"""Parent process of a property check.

./check <ID> [--tier quick|thorough] [--replay FILE]

A property module (vmon/props/cNN.py) provides

    ID, LEVEL, RULE, ASSUMPTIONS
    plan(tier, seed)        -> list of JSON-able shard specs
    run_shard(spec, emit)   -> runs its slice; calls emit(record) for every observation
    (optional) MIN_EVALUATIONS, MIN_NONTRIVIAL  -> reach floors; below them the run is INCONCLUSIVE
    (optional) finalize(agg) -> extra coverage keys computed from merged counters
    (optional) replay(case) -> list of violation dicts for one recorded case

Records emitted by shards (one JSON object per line):

    {"k": "case", "sig": <str|None>, "sample": <obj|None>}            one evaluated case; sig = structural
                                                                       signature when non-trivial
    {"k": "viol", "key": <mechanism key>, "what": <str>, "case": obj}  an oracle disagreement
    {"k": "count", "name": str, "n": int}                              monitor reach counters (summed)
    {"k": "set", "name": str, "v": str}                                distinct-value trackers (unioned)
    {"k": "inconclusive", "why": str}                                  watchdog / harness trouble

Verdict: violated (exit 1, VIOLATION line) / held (exit 0) / inconclusive (exit 2, INCONCLUSIVE line).
"""

from __future__ import annotations

import argparse
import importlib
import json
import os
import shutil
import subprocess
import sys
import tempfile
import time
from concurrent.futures import ThreadPoolExecutor

HERE = os.path.dirname(os.path.dirname(os.path.dirname(os.path.abspath(__file__))))
EVIDENCE_DIR = os.path.join(HERE, "evidence")
REPLAY_DIR = os.path.join(HERE, "replays")
KNOWN = os.path.join(HERE, "known_findings.json")
MAX_PARALLEL = int(os.environ.get("VERIF_JOBS", "16"))


def load_known(prop_id: str):
    try:
        with open(KNOWN) as fd:
            data = json.load(fd)
    except FileNotFoundError:
        return {}, {}
    open_, fixed = {}, {}
    for entry in data.get("findings", []):
        if entry.get("property") != prop_id:
            continue
        if entry.get("status") == "open":
            open_[entry["key"]] = entry
        else:
            fixed[entry["key"]] = entry
    return open_, fixed


def run_one_shard(prop_id: str, idx: int, spec: dict, workdir: str, timeout: float):
    spec_path = os.path.join(workdir, f"spec-{idx}.json")
    out_path = os.path.join(workdir, f"out-{idx}.jsonl")
    err_path = os.path.join(workdir, f"err-{idx}.txt")
    with open(spec_path, "w") as fd:
        json.dump(spec, fd)
    env = dict(os.environ)
    env.setdefault("PYTHONHASHSEED", "0")
    env["SCHEMATHESIS_VERIF"] = "1"
    env["VERIF_SCRATCH"] = os.path.join(workdir, f"scratch-{idx}")
    os.makedirs(env["VERIF_SCRATCH"], exist_ok=True)
    started = time.monotonic()
    status = "ok"
    try:
        with open(err_path, "w") as err:
            proc = subprocess.run(
                ["/venv/bin/python", "-X", "faulthandler", "-m", "vmon.core.shard", prop_id, spec_path, out_path],
                cwd=env["VERIF_SCRATCH"],
                env=env,
                stdout=err,
                stderr=subprocess.STDOUT,
                timeout=timeout,
            )
        if proc.returncode != 0:
            status = f"exit {proc.returncode}"
    except subprocess.TimeoutExpired:
        status = "watchdog"
    records = []
    if os.path.exists(out_path):
        with open(out_path) as fd:
            for line in fd:
                line = line.strip()
                if not line:
                    continue
                try:
                    records.append(json.loads(line))
                except ValueError:
                    pass
    tail = ""
    if status != "ok":
        try:
            with open(err_path) as fd:
                tail = fd.read()[-3000:]
        except OSError:
            pass
    return idx, status, records, tail, time.monotonic() - started


def main(argv=None) -> int:
    parser = argparse.ArgumentParser()
    parser.add_argument("prop")
    parser.add_argument("--tier", default=os.environ.get("VERIF_TIER", "quick"), choices=["quick", "thorough"])
    parser.add_argument("--replay", default=None)
    args = parser.parse_args(argv)
    prop_id = args.prop.upper()
    seed = int(os.environ.get("VERIF_SEED", "0") or 0)
    mod = importlib.import_module(f"vmon.props.{prop_id.lower()}")

    if args.replay:
        return do_replay(mod, prop_id, args.replay)

    started = time.monotonic()
    specs = mod.plan(args.tier, seed)
    workdir = tempfile.mkdtemp(prefix=f"verif-{prop_id}-")
    timeout = getattr(mod, "SHARD_TIMEOUT", {"quick": 600, "thorough": 3600})[args.tier]
    try:
        with ThreadPoolExecutor(max_workers=MAX_PARALLEL) as pool:
            futures = [pool.submit(run_one_shard, prop_id, i, spec, workdir, timeout) for i, spec in enumerate(specs)]
            results = [f.result() for f in futures]
    finally:
        shutil.rmtree(workdir, ignore_errors=True)

    known_open, _fixed = load_known(prop_id)
    counters: dict[str, int] = {}
    sets: dict[str, set] = {}
    sigs: set[str] = set()
    samples: list = []
    evaluations = 0
    inconclusive: list[str] = []
    slow_runs: list[str] = []
    violations: list[dict] = []
    viol_more: dict[str, int] = {}
    for idx, status, records, tail, _elapsed in sorted(results):
        if status != "ok":
            inconclusive.append(f"shard {idx}: {status}: {tail[-600:]}")
        for rec in records:
            kind = rec.get("k")
            if kind == "cases":
                evaluations += int(rec["n"])
                sigs.update(rec["sigs"])
            elif kind == "sample":
                if len(samples) < 8:
                    samples.append(rec["sample"])
            elif kind == "viol":
                rec["shard"] = idx
                violations.append(rec)
            elif kind == "violmore":
                viol_more[rec["key"]] = viol_more.get(rec["key"], 0) + int(rec["n"])
            elif kind == "count":
                counters[rec["name"]] = counters.get(rec["name"], 0) + int(rec["n"])
            elif kind == "set":
                sets.setdefault(rec["name"], set()).add(rec["v"])
            elif kind == "slow":
                slow_runs.append(f"shard {idx}: {rec.get('why')}")
            elif kind == "inconclusive":
                inconclusive.append(f"shard {idx}: {rec.get('why')}")

    # classify
    known_hits: dict[str, int] = {}
    new_violations: list[dict] = []
    known_samples: dict[str, str] = {}
    for v in violations:
        if v.get("key") in known_open:
            known_hits[v["key"]] = known_hits.get(v["key"], 0) + 1
            known_samples.setdefault(v["key"], str(v.get("what", ""))[:400])
        else:
            new_violations.append(v)
    for key, n in viol_more.items():
        if key in known_open:
            known_hits[key] = known_hits.get(key, 0) + n

    min_eval = getattr(mod, "MIN_EVALUATIONS", {"quick": 1, "thorough": 1})[args.tier]
    min_nontrivial = getattr(mod, "MIN_NONTRIVIAL", {"quick": 2, "thorough": 2})[args.tier]
    if evaluations < min_eval:
        inconclusive.append(f"only {evaluations} evaluations (floor {min_eval})")
    if len(sigs) < min_nontrivial:
        inconclusive.append(f"only {len(sigs)} distinct non-trivial cases (floor {min_nontrivial})")
    if len(slow_runs) > max(3, evaluations // 50):
        inconclusive.append(f"{len(slow_runs)} runs were ended by the watchdog while still progressing (too many to ignore)")
    for name, floor in getattr(mod, "REACH_FLOORS", {}).items():
        if counters.get(name, 0) < floor:
            inconclusive.append(f"monitor counter {name}={counters.get(name, 0)} below floor {floor}")

    coverage = {
        "evaluations": evaluations,
        "distinct_nontrivial": len(sigs),
        "rule": mod.RULE,
        "samples": samples,
        "counters": dict(sorted(counters.items())),
        "distinct": {name: len(vals) for name, vals in sorted(sets.items())},
        "distinct_values": {name: sorted(vals)[:60] for name, vals in sorted(sets.items())},
        "shards": len(specs),
        "known_findings_hit": known_hits,
        "known_findings_sample": known_samples,
        "inconclusive_reasons": inconclusive[:10],
        "slow_runs_not_judged": {"count": len(slow_runs), "examples": slow_runs[:5]},
    }
    if getattr(mod, "EXHAUSTIVE", {}).get(args.tier):
        coverage["exhaustive"] = True
    if hasattr(mod, "finalize"):
        coverage.update(mod.finalize(counters, sets) or {})

    exit_code = 0
    lines = []
    replay_paths = []
    if os.path.isdir(REPLAY_DIR):
        for name in os.listdir(REPLAY_DIR):
            if name.startswith(prop_id + "-"):
                os.remove(os.path.join(REPLAY_DIR, name))
    if new_violations:
        os.makedirs(REPLAY_DIR, exist_ok=True)
        by_key: dict[str, list[dict]] = {}
        for v in new_violations:
            by_key.setdefault(v.get("key") or "unclassified", []).append(v)
        for n, (key, group) in enumerate(sorted(by_key.items())):
            path = os.path.join(REPLAY_DIR, f"{prop_id}-{n}.json")
            with open(path, "w") as fd:
                json.dump(
                    {
                        "property": prop_id,
                        "tier": args.tier,
                        "seed": seed,
                        "key": key,
                        "count": len(group) + viol_more.get(key, 0),
                        "what": group[0].get("what"),
                        "case": group[0].get("case"),
                        "more": [{"what": g.get("what"), "case": g.get("case")} for g in group[1:4]],
                    },
                    fd,
                    indent=1,
                    default=str,
                )
            replay_paths.append(path)
            lines.append(f"VIOLATION property={prop_id} replay={path}")
            lines.append(f"  key={key} count={len(group) + viol_more.get(key, 0)} what={str(group[0].get('what'))[:400]}")
        exit_code = 1
    for key, n in sorted(known_hits.items()):
        lines.append(f"KNOWN-FINDING: property={prop_id} {key}: {known_open[key].get('mechanism', '')} (observed {n}x)")
    if exit_code == 0 and inconclusive:
        lines.append(f"INCONCLUSIVE property={prop_id} " + " | ".join(x[:300] for x in inconclusive[:4]))
        exit_code = 2

    coverage["violation_keys"] = sorted({v.get("key") or "unclassified" for v in new_violations})
    evidence = {
        "property_id": prop_id,
        "tier": args.tier,
        "seed": seed,
        "level": mod.LEVEL,
        "coverage": coverage,
        "assumptions": list(getattr(mod, "ASSUMPTIONS", [])),
        "wall_s": round(time.monotonic() - started, 2),
        "violations": len(new_violations) + sum(n for k, n in viol_more.items() if k not in known_open),
        "verdict": {0: "held", 1: "violated", 2: "inconclusive"}[exit_code],
    }
    os.makedirs(EVIDENCE_DIR, exist_ok=True)
    tmp = os.path.join(EVIDENCE_DIR, f".{prop_id}.json.tmp")
    with open(tmp, "w") as fd:
        json.dump(evidence, fd, indent=1, default=str)
    os.replace(tmp, os.path.join(EVIDENCE_DIR, f"{prop_id}.json"))

    for line in lines:
        print(line)
    print(
        f"{prop_id} tier={args.tier} seed={seed} verdict={evidence['verdict']} evaluations={evaluations} "
        f"distinct_nontrivial={len(sigs)} violations={len(new_violations)} known={sum(known_hits.values())} "
        f"wall={evidence['wall_s']}s"
    )
    return exit_code


def do_replay(mod, prop_id: str, path: str) -> int:
    with open(path) as fd:
        data = json.load(fd)
    if not hasattr(mod, "replay"):
        print(f"{prop_id}: no replay support")
        return 2
    found = mod.replay(data["case"])
    for v in found:
        print(f"REPLAYED VIOLATION property={prop_id} key={v.get('key')} what={str(v.get('what'))[:600]}")
    if not found:
        print(f"{prop_id}: replay did not reproduce a violation")
    return 1 if found else 0


if __name__ == "__main__":
    sys.exit(main())

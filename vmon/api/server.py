"""Recording loopback HTTP server with scripted, deterministic behaviour.

The behaviour is a pure function of the request and a per-run script (a list of rules), so the ground truth about
which request had to fail which check can be computed from the server log alone.

Rule: {"when": {"method": "GET", "path_regex": "^/users", "nth": 3, "query_regex": "...", "header": ["X", "v"]},
       "then": {"status": 500, "headers": {...}, "body": "...", "json": obj, "close": true, "sleep": 0.05}}
`nth` counts matching requests (1-based) for that rule; without `nth` the rule always applies. First match wins.
"""

from __future__ import annotations

import itertools
import json
import re
import threading
import time
from http.server import BaseHTTPRequestHandler, ThreadingHTTPServer

_SEQ = itertools.count(1)
_SEQ_LOCK = threading.Lock()


def next_seq() -> int:
    """Global logical clock shared by server threads, the event consumer and the controller."""
    with _SEQ_LOCK:
        return next(_SEQ)


class Script:
    def __init__(self, rules=None, default=None):
        self.rules = rules or []
        self.default = default or {"status": 200, "json": {}}
        self.counters = [0] * len(self.rules)
        self.lock = threading.Lock()

    def decide(self, method, path, query, headers, body):
        with self.lock:
            for idx, rule in enumerate(self.rules):
                when = rule.get("when", {})
                if "method" in when and when["method"].upper() != method.upper():
                    continue
                if "path_regex" in when and not re.search(when["path_regex"], path):
                    continue
                if "query_regex" in when and not re.search(when["query_regex"], query or ""):
                    continue
                if "body_regex" in when and not re.search(when["body_regex"].encode(), body or b""):
                    continue
                if "header" in when:
                    name, value = when["header"]
                    if headers.get(name) != value:
                        continue
                if "no_header" in when and headers.get(when["no_header"]) is not None:
                    continue
                self.counters[idx] += 1
                if "nth" in when and self.counters[idx] != when["nth"]:
                    continue
                if "from_nth" in when and self.counters[idx] < when["from_nth"]:
                    continue
                return idx, rule["then"]
        return None, self.default


class Handler(BaseHTTPRequestHandler):
    protocol_version = "HTTP/1.1"
    server_version = "verif"
    sys_version = ""

    def log_message(self, *args):
        pass

    def handle_one_request(self):
        try:
            super().handle_one_request()
        except (ConnectionError, OSError):
            self.close_connection = True

    def __getattr__(self, name):
        if name.startswith("do_"):
            return self._any
        raise AttributeError(name)

    def _any(self):
        server: RecordingServer = self.server  # type: ignore[assignment]
        length = int(self.headers.get("Content-Length") or 0)
        body = self.rfile.read(length) if length else b""
        if self.headers.get("Transfer-Encoding", "").lower() == "chunked":
            chunks = []
            while True:
                size = int(self.rfile.readline().strip() or b"0", 16)
                if size == 0:
                    self.rfile.readline()
                    break
                chunks.append(self.rfile.read(size))
                self.rfile.readline()
            body = b"".join(chunks)
        path, _, query = self.path.partition("?")
        seq = next_seq()
        rule_idx, then = server.script.decide(self.command, path, query, self.headers, body)
        record = {
            "seq": seq,
            "t": time.monotonic(),
            "method": self.command,
            "raw_path": self.path,
            "path": path,
            "query": query,
            "headers": [(k, v) for k, v in self.headers.items()],
            "body": body.decode("latin-1"),
            "rule": rule_idx,
            "status": then.get("status", 200),
            "thread": threading.current_thread().name,
        }
        if then.get("sleep"):
            time.sleep(then["sleep"])
        with server.log_lock:
            server.log.append(record)
        if then.get("close"):
            self.close_connection = True
            try:
                self.connection.shutdown(2)
            except OSError:
                pass
            return
        if "json" in then:
            payload = json.dumps(then["json"]).encode()
            content_type = then.get("content_type", "application/json")
        else:
            payload = then.get("body", "").encode("latin-1")
            content_type = then.get("content_type")
        dynamic = server.dynamic
        if dynamic is not None:
            result = dynamic(record, then)
            if result is not None:
                status, extra_headers, payload, content_type = result
                then = dict(then, status=status, headers=extra_headers)
                record["status"] = status
        if then.get("status", 200) in (204, 304) or self.command == "HEAD":
            payload = b""  # no body for these: leftover bytes would corrupt the keep-alive connection
        record["response_headers"] = dict(then.get("headers") or {})
        record["response_body"] = payload.decode("latin-1")
        record["response_content_type"] = content_type
        self.send_response(then.get("status", 200))
        if content_type is not None:
            self.send_header("Content-Type", content_type)
        for key, value in (then.get("headers") or {}).items():
            # a list value is sent as repeated header lines (e.g. several Set-Cookie)
            for item in value if isinstance(value, list) else [value]:
                self.send_header(key, item)
        self.send_header("Content-Length", str(len(payload)))
        self.end_headers()
        if self.command != "HEAD":
            self.wfile.write(payload)


class RecordingServer(ThreadingHTTPServer):
    daemon_threads = True
    allow_reuse_address = True
    request_queue_size = 128

    def __init__(self, script: Script | None = None, dynamic=None):
        super().__init__(("127.0.0.1", 0), Handler)
        self.script = script or Script()
        self.dynamic = dynamic
        self.log: list[dict] = []
        self.log_lock = threading.Lock()
        self.thread = threading.Thread(target=self.serve_forever, kwargs={"poll_interval": 0.05}, daemon=True, name="verif-api")

    @property
    def url(self) -> str:
        return f"http://127.0.0.1:{self.server_address[1]}"

    def __enter__(self):
        self.thread.start()
        return self

    def __exit__(self, *exc):
        self.shutdown()
        self.server_close()

    def snapshot(self) -> list[dict]:
        with self.log_lock:
            return sorted(self.log, key=lambda r: r["seq"])

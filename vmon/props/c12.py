"""C12 — execution limits and stop requests are honoured.

Monitor: the API's own request log (global logical sequence + monotonic time) and the event stream of real engine
runs; requests are attributed to phases/scenarios through the test-case id header and the recorders. Oracle:
counting rules written from the statement.
"""

from __future__ import annotations

import copy
import random
import sys
import time

from vmon.gen import docs
from vmon.instr import engine

ID = "C12"
LEVEL = "exploration"
RULE = (
    "runs over: max_examples in {1,3,10,25} x workers {1,2,4}; stateful_step_count in {2,4,6}; max_failures in {1,2,3} "
    "with failures on every/some operations and early/late phases; stop after a sampled event index with delays at "
    "unit.case.enter / transport.send / control.count_failure; unique_inputs on operations with 4-6 possible inputs "
    "(collisions certain) in coverage+fuzzing and in stateful scenarios; rate limits 25/s and 40/s with 1 and 4 workers "
    "over >=3 windows. Non-trivial = the limit in question was actually reached (requests == bound, failures == limit, "
    "stop with requests in flight, collision forced, limiter saturated); distinct = distinct (case, counts) signatures"
)
ASSUMPTIONS = [
    "rate limit: only gross breaches are verdicts (more than `limit` requests inside half a period); anything subtler is statistics",
    "after a stop at most one further request per worker (and per stateful thread) is allowed",
]
MIN_EVALUATIONS = {"quick": 60, "thorough": 600}
MIN_NONTRIVIAL = {"quick": 40, "thorough": 120}
REACH_FLOORS = {"bound_reached:max_examples": 8, "bound_reached:max_failures": 5, "bound_reached:steps": 2, "stops_with_later_events": 5, "unique_collisions_forced": 3, "rate_saturated": 1}
SHARD_TIMEOUT = {"quick": 900, "thorough": 5400}

CASE_ID_HEADER = "x-schemathesis-testcaseid"


def doc_enum():
    ok = copy.deepcopy(docs.OK)
    return docs.base(
        {
            "/e": {
                "get": {
                    "operationId": "getE",
                    "parameters": [
                        {"name": "x", "in": "query", "required": True, "schema": {"type": "integer", "enum": [1, 2, 3]}},
                        {"name": "y", "in": "query", "required": True, "schema": {"type": "string", "enum": ["a", "b"]}},
                    ],
                    "responses": ok,
                }
            },
            # a single possible input / no input at all: every phase produces the very same request
            "/g": {"get": {"operationId": "getG", "parameters": [{"name": "x", "in": "query", "required": True, "schema": {"type": "integer", "enum": [1]}}], "responses": copy.deepcopy(docs.OK)}},
            "/h": {"get": {"operationId": "getH", "responses": copy.deepcopy(docs.OK)}},
            "/f/{k}": {
                "get": {
                    "operationId": "getF",
                    "parameters": [{"name": "k", "in": "path", "required": True, "schema": {"type": "integer", "enum": [5, 6, 7, 8]}}],
                    "responses": copy.deepcopy(docs.OK),
                }
            },
        }
    )


def doc_enum_linked():
    doc = docs.doc_two_linked()
    doc["paths"]["/users"]["post"]["requestBody"]["content"]["application/json"]["schema"] = {
        "type": "object",
        "properties": {"n": {"type": "integer", "enum": [1, 2]}},
        "required": ["n"],
        "additionalProperties": False,
    }
    return doc


def doc_chain():
    """POST /users -> GET /users/{id} -> PATCH /users/{id} -> GET ... : the links form a cycle, so a stateful sequence
    is as long as the step count lets it be."""
    ok_id = {"200": {"description": "ok", "content": {"application/json": {"schema": {"type": "object"}}}}}
    doc = docs.doc_two_linked()
    get = doc["paths"]["/users/{id}"]["get"]
    get["responses"] = copy.deepcopy(ok_id)
    get["responses"]["200"]["links"] = {"patch": {"operationId": "patchUser", "parameters": {"id": "$response.body#/id"}}}
    doc["paths"]["/users/{id}"]["patch"] = {
        "operationId": "patchUser",
        "parameters": [docs.int_param("id", "path")],
        "requestBody": {"required": True, "content": {"application/json": {"schema": {"type": "object", "properties": {"n": {"type": "integer"}}, "required": ["n"], "additionalProperties": False}}}},
        "responses": copy.deepcopy(ok_id),
    }
    doc["paths"]["/users/{id}"]["patch"]["responses"]["200"]["links"] = {"get": {"operationId": "getUser", "parameters": {"id": "$response.body#/id"}}}
    return doc


CHAIN_RULES = docs.LINK_RULES + [{"when": {"path_regex": "^/users/"}, "then": {"status": 200, "json": {"id": 7}}}]
DOCS = dict(docs.DOCS, enum=doc_enum, enum_linked=doc_enum_linked, chain=doc_chain)
FAIL_ALL = [{"when": {"path_regex": "^/(a|b|c|r\\d|items)"}, "then": {"status": 500, "json": {}}}]
FAIL_SOME = [{"when": {"path_regex": "^/(r[0246]|a|c)"}, "then": {"status": 500, "json": {}}}]
FAIL_ENUM = [{"when": {"path_regex": "^/(e|f/|g|h)"}, "then": {"status": 500, "json": {}}}]
CLOSE_ALL = [{"when": {"path_regex": "^/(a|b|c)"}, "then": {"close": True}}]
CLOSE_SOME = [{"when": {"path_regex": "^/r[0-5]"}, "then": {"close": True}}]
FAIL_GET_USER = [{"when": {"method": "GET", "path_regex": "^/users/"}, "then": {"status": 500, "json": {}}}]


def gen_cases(tier, seed):
    rng = random.Random(f"{seed}:C12")
    cases = []
    thorough = tier == "thorough"
    for me in (1, 3, 10, 25):
        for workers in (1, 2, 4):
            for doc in ("one", "four") + (("eight",) if thorough else ()):
                cases.append({"kind": "max_examples", "doc": doc, "cfg": {"phases": ["fuzzing"], "max_examples": me, "workers": workers}, "rules": []})
        cases.append({"kind": "max_examples", "doc": "four", "cfg": {"phases": ["examples", "coverage", "fuzzing"], "max_examples": me, "modes": ["positive", "negative"]}, "rules": []})
    for steps in (2, 4, 6):
        for me in (3, 6):
            cases.append({"kind": "steps", "doc": "two_linked", "cfg": {"phases": ["stateful"], "max_examples": me, "stateful_step_count": steps}, "rules": []})
    # a link cycle: the step count is the only thing that ends a sequence (also below Hypothesis' own default)
    for steps in (2, 3, 5, 8):
        cases.append({"kind": "steps", "doc": "chain", "cfg": {"phases": ["stateful"], "max_examples": 5, "stateful_step_count": steps}, "rules": CHAIN_RULES, "rname": "chain"})
        cases.append({"kind": "steps", "doc": "chain", "cfg": {"phases": ["stateful"], "max_examples": 5, "stateful_step_count": steps, "hypothesis_phases_default": True}, "rules": CHAIN_RULES, "rname": "chain-api-defaults"})
    # a stop request in the middle of a long sequence
    for _ in range(4 if thorough else 2):
        cases.append({"kind": "stop", "doc": "chain", "cfg": {"phases": ["stateful"], "max_examples": 6, "stateful_step_count": 12}, "rules": CHAIN_RULES, "rname": "chain", "k": rng.randrange(2, 9), "on_request": True, "delay": rng.choice([None, {"point": "stateful.step", "hit": rng.randint(2, 5)}])})
    for mf in (1, 2, 3):
        for workers in (1, 2, 4):
            for rules, rname in ((FAIL_ALL, "all"), (FAIL_SOME, "some")):
                for doc in ("four", "eight"):
                    cases.append({"kind": "max_failures", "doc": doc, "cfg": {"phases": ["coverage", "fuzzing", "stateful"], "max_examples": 3, "max_failures": mf, "workers": workers}, "rules": rules, "rname": rname})
        cases.append({"kind": "max_failures", "doc": "two_linked", "cfg": {"phases": ["fuzzing", "stateful"], "max_examples": 4, "max_failures": mf}, "rules": FAIL_GET_USER, "rname": "get_user"})
        cases.append({"kind": "max_failures", "doc": "two_linked", "cfg": {"phases": ["stateful"], "max_examples": 6, "max_failures": mf}, "rules": FAIL_GET_USER, "rname": "get_user"})
    for doc, cfg in (
        ("four", {"phases": ["fuzzing"], "max_examples": 6, "workers": 1}),
        ("four", {"phases": ["coverage", "fuzzing"], "max_examples": 6, "workers": 2}),
        ("eight", {"phases": ["fuzzing"], "max_examples": 6, "workers": 4}),
        ("two_linked", {"phases": ["fuzzing", "stateful"], "max_examples": 5}),
    ):
        for _ in range(10 if thorough else 5):
            cases.append(
                {
                    "kind": "stop",
                    "doc": doc,
                    "cfg": cfg,
                    "rules": [],
                    "k": rng.randrange(4, 30),
                    "delay": rng.choice([None, {"point": "unit.case.enter", "hit": rng.randint(1, 6)}, {"point": "transport.send", "hit": rng.randint(1, 6)}, {"point": "stateful.step", "hit": rng.randint(1, 4)}]),
                }
            )
    # errored (not failed) scenarios count towards the limit as well
    for mf in (1, 2):
        for workers in (1, 2):
            cases.append({"kind": "max_failures", "doc": "four", "cfg": {"phases": ["coverage", "fuzzing"], "max_examples": 3, "max_failures": mf, "workers": workers}, "rules": CLOSE_ALL, "rname": "closed"})
            cases.append({"kind": "max_failures", "doc": "eight", "cfg": {"phases": ["examples", "coverage", "fuzzing"], "max_examples": 2, "max_failures": mf, "workers": workers}, "rules": CLOSE_SOME, "rname": "closed-some"})
    # stop requests with the other options switched on
    for doc, cfg in (
        ("four", {"phases": ["fuzzing"], "max_examples": 25, "workers": 2, "unique_inputs": True}),
        ("eight", {"phases": ["coverage", "fuzzing"], "max_examples": 25, "workers": 4, "unique_inputs": True}),
        ("four", {"phases": ["fuzzing"], "max_examples": 25, "workers": 2, "continue_on_failure": True}),
        ("four", {"phases": ["fuzzing"], "max_examples": 25, "workers": 1, "unique_inputs": True, "modes": ["positive", "negative"]}),
    ):
        for _ in range(6 if thorough else 3):
            cases.append({"kind": "stop", "doc": doc, "cfg": cfg, "rules": [], "k": rng.randrange(6, 14), "delay": None})
    for workers in (1, 2, 4):
        for me in (15, 40):
            cases.append({"kind": "unique", "doc": "enum", "cfg": {"phases": ["coverage", "fuzzing"], "max_examples": me, "unique_inputs": True, "workers": workers}, "rules": []})
        # the same request must not be repeated after it failed a check either (coverage and fuzzing meet on the enum values)
        cases.append({"kind": "unique", "doc": "enum", "cfg": {"phases": ["coverage", "fuzzing"], "max_examples": 20, "unique_inputs": True, "workers": workers}, "rules": FAIL_ENUM, "rname": "fail"})
        cases.append({"kind": "unique", "doc": "enum", "cfg": {"phases": ["examples", "coverage", "fuzzing"], "max_examples": 20, "unique_inputs": True, "workers": workers, "continue_on_failure": True}, "rules": FAIL_ENUM, "rname": "fail-continue"})
    cases.append({"kind": "unique", "doc": "enum", "cfg": {"phases": ["examples", "coverage", "fuzzing"], "max_examples": 30, "unique_inputs": True, "modes": ["positive", "negative"]}, "rules": []})
    for me in (6, 12):
        cases.append({"kind": "unique_stateful", "doc": "enum_linked", "cfg": {"phases": ["stateful"], "max_examples": me, "unique_inputs": True, "stateful_step_count": 6}, "rules": []})
    for rate, workers in (("25/s", 1), ("40/s", 4), ("25/s", 4)):
        cases.append({"kind": "rate", "doc": "four", "cfg": {"phases": ["fuzzing"], "max_examples": 30, "workers": workers}, "rules": [], "rate": rate})
    if thorough:
        more = []
        for c in cases:
            for s in (1, 2, 3, 4, 5, 6):
                more.append(dict(c, seed_offset=s))
        cases += more
    return cases


def plan(tier, seed):
    nshards = 16 if tier == "quick" else 32
    return [{"tier": tier, "seed": seed, "shard": i, "nshards": nshards} for i in range(nshards)]


def execute(case, seed):
    cfg = dict(case["cfg"], seed=seed + 1 + case.get("seed_offset", 0))
    kwargs = {}
    plan_ = {"control.count_failure": [{"action": "mark", "arg": "first_failure_counted", "hit": 1}]}
    if case["kind"] == "stop":
        if case.get("on_request"):
            kwargs["stop_on_request"] = case["k"]  # the stop arrives while a request of a sequence is being served
        else:
            kwargs["stop_after"] = case["k"]
        if case.get("delay"):
            plan_[case["delay"]["point"]] = [{"hit": case["delay"]["hit"], "action": "delay", "arg": 0.15}]
    if case["kind"] == "rate":
        from schemathesis.core.rate_limit import build_limiter

        def setup(schema):
            schema.rate_limiter = build_limiter(case["rate"])
            return schema

        kwargs["filter_setup"] = setup
    rules = docs.LINK_RULES + [{"when": {"method": "POST", "path_regex": "^/users$"}, "then": {"status": 201, "json": {"id": 7}}}] + case["rules"]
    return engine.run_api(DOCS[case["doc"]](), cfg, rules=rules, plan=plan_, timeout=150, **kwargs)


def case_id_of(request):
    for k, v in request["headers"]:
        if k.lower() == CASE_ID_HEADER:
            return v
    return None


def request_identity(r):
    headers = sorted((k.lower(), v) for k, v in r["headers"] if k.lower() not in (CASE_ID_HEADER,))
    return (r["method"], r["raw_path"], r["body"], tuple(headers))


def judge(case, result):
    viols = []
    stats = {}
    cfg = case["cfg"]
    events = result.events
    requests_ = result.test_requests()
    scen = [e for e in events if e["type"] == "ScenarioFinished"]
    # case id -> (phase, label, scenario id, has_transition/parent)
    owner = {}
    for e in scen:
        for cid, c in e["recorder"]["cases"].items():
            owner[cid] = (e["phase"], c["operation"], e["id"], c)
    kind = case["kind"]
    workers = cfg.get("workers", 1)
    if kind == "max_examples":
        bound = cfg["max_examples"]
        failed_labels = {(e["phase"], e["label"]) for e in scen if e["status"] != "SUCCESS"}
        per = {}
        for r in requests_:
            o = owner.get(case_id_of(r))
            if o and o[0] == "FUZZING":
                per[o[1]] = per.get(o[1], 0) + 1
        for label, n in per.items():
            if ("FUZZING", label) in failed_labels:
                continue
            if n > bound:
                viols.append(("C12/more-than-max-examples-requests", f"{label}: {n} fuzzing requests with max_examples={bound}"))
            if n == bound:
                stats["bound_reached:max_examples"] = stats.get("bound_reached:max_examples", 0) + 1
        stats["sig"] = sorted(per.items())
    elif kind == "steps":
        bound = cfg["stateful_step_count"]
        for e in scen:
            if e["phase"] != "STATEFUL_TESTING":
                continue
            steps = [c for c in e["recorder"]["cases"].values() if c["parent_id"] is None or c["has_transition"]]
            sent = [r for r in requests_ if owner.get(case_id_of(r), (None, None, None))[2] == e["id"]]
            n = max(len(steps), len([r for r in sent if owner[case_id_of(r)][3]["parent_id"] is None or owner[case_id_of(r)][3]["has_transition"]]))
            if n > bound:
                viols.append(("C12/stateful-sequence-longer-than-step-count", f"scenario with {n} steps, stateful_step_count={bound}"))
            if n == bound:
                stats["bound_reached:steps"] = stats.get("bound_reached:steps", 0) + 1
        stats["sig"] = [len(e["recorder"]["cases"]) for e in scen][:20]
    elif kind == "max_failures":
        bound = cfg["max_failures"]
        bad = [e for e in scen if e["status"] in ("FAILURE", "ERROR")]
        if len(bad) > bound:
            # several stateful scenarios may carry the same failure; count unit scenarios strictly
            unit_bad = [e for e in bad if e["phase"] != "STATEFUL_TESTING"]
            if len(unit_bad) > bound:
                viols.append(("C12/more-failed-scenarios-than-max-failures", f"{len(unit_bad)} failed/errored unit scenarios reported, max_failures={bound}"))
        if len(bad) >= bound:
            stats["bound_reached:max_failures"] = 1
            # every later phase must be SKIP with the limit as reason
            phase_events = [e for e in events if e["type"] == "PhaseFinished"]
            reached_in = None
            count = 0
            for e in events:
                if e["type"] == "ScenarioFinished" and e["status"] in ("FAILURE", "ERROR"):
                    count += 1
                    if count >= bound:
                        reached_in = e["phase"]
                        break
            order = ["PROBING", "EXAMPLES", "COVERAGE", "FUZZING", "STATEFUL_TESTING"]
            if reached_in and reached_in != "STATEFUL_TESTING":
                for e in phase_events:
                    if order.index(e["phase"]) > order.index(reached_in):
                        if e["status"] != "SKIP":
                            viols.append(("C12/phase-after-failure-limit-not-skipped", f"{e['phase']} finished {e['status']} after the limit was reached in {reached_in}"))
                        elif e["phase_enabled"] and e["skip_reason"] != "failure limit reached":
                            viols.append(("C12/phase-after-failure-limit-wrong-skip-reason", f"{e['phase']} skip reason {e['skip_reason']!r}"))
                # and no requests of later phases
                for r in requests_:
                    o = owner.get(case_id_of(r))
                    if o and order.index(o[0]) > order.index(reached_in):
                        viols.append(("C12/requests-sent-in-phase-after-failure-limit", f"{o[0]} {o[1]}"))
                        break
        stats["sig"] = (len(bad), [f"{e['phase']}:{e['status']}" for e in events if e["type"] == "PhaseFinished"])
    elif kind == "stop":
        stop_seq = result.stop_seq
        if stop_seq is not None:
            later = [r for r in requests_ if r["seq"] > stop_seq]
            # unit phases only: the stateful thread may have queued announcements before the stop that are delivered later
            started_after = [e for e in events if e["type"] == "ScenarioStarted" and e["seq"] > stop_seq and e["phase"] != "STATEFUL_TESTING"]
            allowed = workers
            if later or started_after or any(e["seq"] > stop_seq for e in events):
                stats["stops_with_later_events"] = 1
            if len(later) > allowed:
                viols.append(("C12/requests-after-stop", f"{len(later)} requests after stop() with {workers} worker(s)"))
            if len(started_after) > allowed:
                viols.append(("C12/scenarios-started-after-stop", f"{len(started_after)} ScenarioStarted delivered after stop()"))
            stats["sig"] = (len(later), len(started_after))
    elif kind in ("unique", "unique_stateful"):
        seen = {}
        dup = None
        for r in requests_:
            o = owner.get(case_id_of(r))
            if o is None:
                continue
            scope = o[2] if kind == "unique_stateful" else "run"
            key = (scope, o[1], request_identity(r))
            if key in seen:
                dup = (o, r["method"], r["raw_path"], seen[key], r["seq"])
                break
            seen[key] = r["seq"]
        if dup:
            viols.append((f"C12/same-request-sent-twice-with-unique-inputs:{'stateful' if kind == 'unique_stateful' else dup[0][0].lower()}", f"{dup[1]} {dup[2]} sent at seq {dup[3]} and {dup[4]} ({dup[0][0]})"))
        # collisions are certain when more examples were requested than distinct inputs exist
        per = {}
        for r in requests_:
            o = owner.get(case_id_of(r))
            if o:
                per[o[1]] = per.get(o[1], 0) + 1
        stats["unique_collisions_forced"] = 1 if cfg["max_examples"] > 6 else 0
        stats["sig"] = sorted(per.items())
    elif kind == "rate":
        limit, _ = case["rate"].split("/")
        limit = int(limit)
        times = sorted(r["t"] for r in requests_)
        worst = 0
        j = 0
        for i, t in enumerate(times):
            while times[j] < t - 0.5:
                j += 1
            worst = max(worst, i - j + 1)
        duration = times[-1] - times[0] if times else 0
        if worst > limit:
            viols.append(("C12/rate-limit-grossly-exceeded", f"{worst} requests inside 0.5 s with limit {case['rate']} and {workers} workers"))
        if duration >= 3.0 and len(times) >= 3 * limit:
            stats["rate_saturated"] = 1
        stats["sig"] = (len(times), round(duration), worst // 5)
        stats["rate_worst_half_window"] = worst
    if result.harness_error:
        viols.append(("C12/stream-raised", result.harness_error))
    return viols, stats


def run_shard(spec, emit):
    tier, seed, shard, nshards = spec["tier"], spec["seed"], spec["shard"], spec["nshards"]
    sys.setswitchinterval(1e-5)
    cases = gen_cases(tier, seed)
    # long cases first so that they are spread
    mine = [c for i, c in enumerate(cases) if i % nshards == shard]
    deadline = time.monotonic() + (90 if tier == "quick" else 300)
    samples = 0
    for case in mine:
        if time.monotonic() > deadline:
            emit.count("cases_skipped_budget")
            continue
        result = execute(case, seed)
        if result.hung:
            emit.inconclusive(f"watchdog fired: {case}")
            continue
        viols, stats = judge(case, result)
        reached = any(k.startswith("bound_reached") or k in ("stops_with_later_events", "unique_collisions_forced", "rate_saturated") and v for k, v in stats.items())
        sig = f"{case['kind']}|{case['doc']}|{sorted(case['cfg'].items())}|{case.get('rname')}|{case.get('k')}|{case.get('delay')}|{stats.get('sig')}"
        sample = None
        if reached and samples < 2:
            samples += 1
            sample = {"case": {k: v for k, v in case.items() if k != "rules"}, "requests": len(result.test_requests()), "observed": stats}
        emit.case(sig=sig if reached else None, sample=sample)
        emit.count("runs:" + case["kind"])
        emit.count("requests_seen", len(result.test_requests()))
        for k, v in stats.items():
            if k != "sig" and isinstance(v, int):
                emit.count(k, v)
        for key, what in viols:
            emit.viol(key, what, {"case": case, "stats": stats, "events": [(e["type"], e.get("phase"), e.get("status"), e.get("skip_reason")) for e in result.events][-30:]})


def replay(case):
    for _ in range(3):
        result = execute(case["case"], 0)
        viols, _ = judge(case["case"], result)
        if viols:
            return [{"key": k, "what": w} for k, w in viols]
    return []

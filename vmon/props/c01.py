"""C01 — positive-mode test data always conforms to the API schema.

Monitor: every `Case` drawn from `operation.as_strategy(generation_mode=POSITIVE, generation_config=cfg)` (the entry
point the engine uses), together with the raw per-location values captured before serialisation (vmon.instr.capture).
Oracle: vmon.oracles.oas_schema (independent OpenAPI->JSON Schema reading, request mode) + presence of required
parameters + configured string restrictions. Converse: an operation built from satisfiable-by-construction schemas
must yield cases.
"""

from __future__ import annotations

import random
import time

from vmon.gen import schemas as gen
from vmon.oracles import oas_schema

ID = "C01"
LEVEL = "exploration"
RULE = (
    "documents: one operation whose path/query/header/cookie parameters and JSON/form body are drawn from pools of "
    "satisfiable-by-construction schemas (numeric bounds incl. 0 and exclusive, multipleOf, enum, lengths, ~15 patterns anchored/"
    "half-anchored/unanchored x min/maxLength, formats with exact checkers, nullable, readOnly, allOf/anyOf/oneOf, nested $ref, arrays, "
    "additionalProperties), in OpenAPI 2.0/3.0/3.1; configurations allow_x00 x codec {utf-8, ascii, latin-1} x with_security_parameters; "
    "N draws per operation. Non-trivial = a drawn case with at least one generated part; distinct = distinct (operation shape, "
    "configuration, value-shape) signatures"
)
ASSUMPTIONS = [
    "formats outside {date, date-time, uuid, ipv4, ipv6, byte} and ECMA-only regex features are not judged",
    "Python `re.search` is the pattern semantics (what JSON Schema prescribes, modulo dialect)",
]
MIN_EVALUATIONS = {"quick": 2500, "thorough": 100000}
MIN_NONTRIVIAL = {"quick": 1200, "thorough": 30000}
REACH_FLOORS = {"raw:path": 1000, "raw:query": 500, "raw:header": 300, "raw:body": 500, "operations": 60}
SHARD_TIMEOUT = {"quick": 900, "thorough": 5400}

STRIP = ("name", "in", "required", "collectionFormat", "description", "style", "explode")


def plan(tier, seed):
    nshards = 16 if tier == "quick" else 32
    return [{"tier": tier, "seed": seed, "shard": i, "nshards": nshards} for i in range(nshards)]


def strings_in(value):
    if isinstance(value, str):
        yield value
    elif isinstance(value, dict):
        for k, v in value.items():
            if isinstance(k, str):
                yield k
            yield from strings_in(v)
    elif isinstance(value, (list, tuple)):
        for v in value:
            yield from strings_in(v)


def split_strings(doc, schema, value, typed, free, depth=0):
    """Sort the strings of a body into those at positions the schema describes and those at free-form positions
    (property names and values that no sub-schema constrains: `{}`, absent `items`, undeclared additional properties)."""
    schema = oas_schema._peek(doc, schema) if isinstance(schema, dict) else schema
    if not isinstance(schema, dict) or not schema or depth > 8:
        free.extend(strings_in(value))
        return
    if "anyOf" in schema or "oneOf" in schema:
        free.extend(strings_in(value))  # which branch describes the value is not reconstructed: not judged
        return
    if "allOf" in schema:
        merged = {k: v for k, v in schema.items() if k != "allOf"}
        for sub in schema["allOf"]:
            sub = oas_schema._peek(doc, sub)
            if isinstance(sub, dict):
                merged.setdefault("properties", {}).update(sub.get("properties", {}))
                for k in ("type", "items", "additionalProperties"):
                    if k in sub:
                        merged.setdefault(k, sub[k])
        schema = merged
    if isinstance(value, str):
        (typed if ("type" in schema or "enum" in schema or "pattern" in schema or "format" in schema) else free).append(value)
    elif isinstance(value, dict):
        props = schema.get("properties", {})
        additional = schema.get("additionalProperties", None)
        for key, sub in value.items():
            if key in props:
                typed.append(key)
                split_strings(doc, props[key], sub, typed, free, depth + 1)
            elif isinstance(additional, dict) and additional:
                free.append(key)  # names of additional properties are never constrained
                split_strings(doc, additional, sub, typed, free, depth + 1)
            else:
                free.append(key)
                free.extend(strings_in(sub))
    elif isinstance(value, list):
        items = schema.get("items")
        for sub in value:
            if isinstance(items, dict) and items:
                split_strings(doc, items, sub, typed, free, depth + 1)
            else:
                free.extend(strings_in(sub))


def declared_parameters(doc, version):
    (template, item), = doc["paths"].items()
    (method, op), = [(k, v) for k, v in item.items() if k != "parameters"]
    out = {"path": {}, "query": {}, "header": {}, "cookie": {}}
    body = []
    own = {(p["name"], p["in"]) for p in op.get("parameters", [])}
    # path-level parameters apply unless the operation declares one of the same name AND location
    effective = [p for p in item.get("parameters", []) if (p["name"], p["in"]) not in own] + list(op.get("parameters", []))
    for p in effective:
        if p["in"] == "body":
            body.append(("application/json", p["schema"], p.get("required", False)))
            continue
        if "content" in p:
            schema = next(iter(p["content"].values())).get("schema", {})
        else:
            schema = p["schema"] if version != "2.0" else {k: v for k, v in p.items() if k not in STRIP}
        out[p["in"]][p["name"]] = (schema, p.get("required", False))
    if "requestBody" in op:
        for media, entry in op["requestBody"]["content"].items():
            body.append((media, entry["schema"], op["requestBody"].get("required", False)))
    return out, body, method, template


def judge_positive_part(doc, version, location, declared, raw, what="value"):
    """-> list of (key, text) for one non-body location; raw is the generated dict or None."""
    viols = []
    raw = raw or {}
    if not isinstance(raw, dict):
        return [(f"C01/{location}-container-not-an-object", repr(raw)[:100])]
    for name, (schema, required) in declared.items():
        if (required or location == "path") and name not in raw:
            viols.append((f"C01/{location}-required-parameter-missing", f"{name} absent in {str(raw)[:150]}"))
    for name, value in raw.items():
        if name not in declared:
            if location == "header" and name.lower() in ("x-api-key", "authorization"):
                if gen.effective_security(doc):
                    continue  # security parameters of the document's schemes
                viols.append(("C01/security-parameter-generated-for-an-operation-without-requirements", f"{name}={value!r:.60}"))
                continue
            viols.append((f"C01/{location}-undeclared-parameter-generated", f"{name}={value!r:.60}"))
            continue
        schema, _ = declared[name]
        kws = oas_schema.failing_keywords(value, schema, doc=doc, version=version, mode="request")
        if kws:
            has_pattern = "pattern" in str(schema)
            suffix = "+".join(sorted(kws))
            if kws <= {"minLength", "maxLength"} and has_pattern:
                # one mechanism, whatever the location: the length keywords were folded into the pattern
                viols.append(("C01/length-violated-after-pattern-length-rewrite", f"{location} {name}={value!r:.80} schema={schema}"))
                continue
            if kws == {"pattern"} and widened_unquantified_atom(schema, value):
                # one mechanism, whatever the location: the length keywords became a quantifier the pattern never had
                viols.append(("C01/pattern-violated-after-pattern-length-rewrite:unquantified-atom", f"{location} {name}={value!r:.80} schema={schema}"))
                continue
            viols.append((f"C01/{location}-{what}-violates:{suffix}", f"{name}={value!r:.80} schema={schema}"))
    return viols


def widened_unquantified_atom(schema, value):
    """The declared pattern is `^atom$` with one literal or character class and no quantifier, next to length keywords,
    and the value is a longer run of that atom within the declared lengths."""
    import re

    try:
        import re._parser as sre_parse
        import re._constants as sre
    except ImportError:  # pragma: no cover
        import sre_constants as sre
        import sre_parse
    pattern = schema.get("pattern") if isinstance(schema, dict) else None
    if not isinstance(pattern, str) or not isinstance(value, str) or not ("minLength" in schema or "maxLength" in schema):
        return False
    if not (pattern.startswith("^") and pattern.endswith("$")):
        return False
    try:
        parsed = sre_parse.parse(pattern)
    except re.error:
        return False
    if len(parsed) != 3 or parsed[0][0] != sre.AT or parsed[2][0] != sre.AT or parsed[1][0] not in (sre.LITERAL, sre.IN):
        return False
    lo, hi = schema.get("minLength", 0), schema.get("maxLength")
    if len(value) < 2 or len(value) < lo or (hi is not None and len(value) > hi):
        return False
    return re.fullmatch(f"(?:{pattern[1:-1]})+", value) is not None


def run_shard(spec, emit):
    import hypothesis
    from hypothesis import HealthCheck, Phase, given, settings

    import schemathesis
    from schemathesis.core import NOT_SET
    from schemathesis.generation import GenerationConfig, GenerationMode
    from vmon.instr.capture import RawCapture

    tier, seed, shard = spec["tier"], spec["seed"], spec["shard"]
    rng = random.Random(f"{seed}:C01:{shard}")
    capture = RawCapture()
    capture.install()
    n_ops = 14 if tier == "quick" else 120
    n_draws = 25 if tier == "quick" else 60
    deadline = time.monotonic() + (85 if tier == "quick" else 300)
    samples = 0
    for op_idx in range(n_ops):
        if time.monotonic() > deadline:
            break
        version = rng.choice(["3.0", "3.0", "3.1", "2.0"])
        with_security = rng.random() < 0.4
        doc, desc, method = gen.make_operation_document(rng, version, composite=(tier == "thorough"), with_security=with_security, unquantified_atoms=True)
        cfg = {"allow_x00": rng.random() < 0.5, "codec": rng.choice(["utf-8", "utf-8", "ascii", "latin-1"]), "with_security_parameters": rng.random() < 0.5}
        declared, bodies, method, template = declared_parameters(doc, version)
        for _, body_schema, _ in bodies:
            # `type` is optional in JSON Schema: an object described by `properties` alone keeps its readOnly members
            if isinstance(body_schema, dict) and body_schema.get("type") == "object" and "readOnly" in str(body_schema.get("properties")) and rng.random() < 0.5:
                del body_schema["type"]
                emit.count("untyped_object_bodies_with_readonly")
        try:
            schema = schemathesis.openapi.from_dict(doc)
            schema.generation_config = GenerationConfig(**cfg)
            operation = schema[template][method.upper()]
        except Exception as exc:
            emit.viol("C01/generated-document-not-loadable", f"{type(exc).__name__}: {exc}"[:300], {"doc": doc})
            continue
        # the engine re-loads operations with the generation config; do the same so that security parameters follow it
        from schemathesis.core.result import Ok

        operation = next(r.ok() for r in schema.get_all_operations(generation_config=schema.generation_config) if isinstance(r, Ok))
        emit.count("operations")
        seen = []
        strategy = operation.as_strategy(generation_mode=GenerationMode.POSITIVE, generation_config=schema.generation_config)

        @hypothesis.seed(rng.randrange(10**9))
        @settings(max_examples=n_draws, database=None, deadline=None, phases=[Phase.generate], suppress_health_check=list(HealthCheck))
        @given(case=strategy)
        def test(case):
            seen.append((case, capture.take()))

        capture.take()
        try:
            test()
        except hypothesis.errors.Unsatisfiable:
            key = "C01/satisfiable-operation-reported-unsatisfiable"
            for location in ("header", "cookie"):
                for name, (pschema, _) in declared[location].items():
                    nullable = pschema.get("nullable") or pschema.get("x-nullable") or (isinstance(pschema.get("type"), list) and "null" in pschema["type"])
                    base = pschema.get("type")
                    base = [t for t in base if t != "null"][0] if isinstance(base, list) else base
                    if nullable and base in ("integer", "number", "boolean"):
                        key += ":nullable-non-string-header-or-cookie"
                        break
                else:
                    continue
                break
            emit.viol(key, "Unsatisfiable raised for an operation whose every input has a witness", {"doc": doc, "cfg": cfg})
            continue
        except Exception as exc:
            emit.viol("C01/generation-crashed", f"{type(exc).__name__}: {exc}"[:300], {"doc": doc, "cfg": cfg})
            continue
        if not seen:
            emit.viol("C01/satisfiable-operation-yields-no-cases", "no cases drawn", {"doc": doc, "cfg": cfg})
            continue
        for case, raw in seen:
            viols = []
            for location, attr in (("path", "path_parameters"), ("query", "query"), ("header", "headers"), ("cookie", "cookies")):
                rec = raw.get(location)
                value = rec[1] if rec else None
                if rec:
                    emit.count("raw:" + location)
                if declared[location] or value:
                    viols += judge_positive_part(doc, version, location, declared[location], value)
                final = getattr(case, attr)
                if declared[location] and any(req or location == "path" for _, req in declared[location].values()) and not final:
                    viols.append((f"C01/{location}-missing-in-final-case", f"{attr}={final!r}"))
            # body
            if bodies:
                rec = raw.get("body")
                if case.body is NOT_SET:
                    if all(req for _, _, req in bodies):
                        viols.append(("C01/required-body-absent", "body is NOT_SET"))
                elif rec:
                    emit.count("raw:body")
                    candidates = [b for b in bodies if b[0] == case.media_type] or bodies
                    body_schema = candidates[0][1]
                    kws = oas_schema.failing_keywords(rec[1], body_schema, doc=doc, version=version, mode="request")
                    if kws:
                        suffix = "+".join(sorted(kws))
                        if kws == {"not"}:
                            suffix = "readOnly-property-sent"
                        viols.append((f"C01/body-value-violates:{suffix}", f"body={rec[1]!r:.120} schema={body_schema}"))
            # configured string restrictions, on the final case
            typed, free, security, plain_headers = [], [], [], []
            for part in (case.path_parameters, case.query):
                typed.extend(strings_in(part))
            for location, part in (("header", dict(case.headers or {})), ("cookie", case.cookies or {})):
                for name, value in part.items():
                    typed.append(name)
                    if location == "header" and name.lower() in ("x-api-key", "authorization") and name not in declared["header"]:
                        security.extend(strings_in(value))
                    elif declared[location].get(name, ({}, 0))[0] == {"type": "string"} or (version == "2.0" and declared[location].get(name, ({}, 0))[0].get("type") == "string" and len(declared[location][name][0]) == 1):
                        # unconstrained string headers / cookies are drawn from the product's own header-value alphabet
                        plain_headers.extend(strings_in(value))
                    else:
                        typed.extend(strings_in(value))
            if case.body is not NOT_SET and bodies:
                candidates = [b for b in bodies if b[0] == case.media_type] or bodies
                split_strings(doc, candidates[0][1], case.body, typed, free)
            for pool, where in ((typed, "schema-typed-position"), (free, "free-form-position"), (security, "generated-security-parameter"), (plain_headers, "unconstrained-string-header-or-cookie")):
                for s in pool:
                    if not cfg["allow_x00"] and "\x00" in s:
                        viols.append((f"C01/nul-character-generated-although-disallowed:{where}", repr(s)[:80]))
                        break
                for s in pool:
                    try:
                        s.encode(cfg["codec"])
                    except UnicodeEncodeError:
                        viols.append((f"C01/string-not-encodable-in-configured-codec:{where}", f"{cfg['codec']}: {s!r:.80}"))
                        break
            if not cfg["with_security_parameters"]:
                headers = {k.lower() for k in (case.headers or {})}
                if "x-api-key" in headers or ("authorization" in headers and "authorization" not in {n.lower() for n in declared["header"]}):
                    viols.append(("C01/security-parameter-generated-although-disabled", str(sorted(headers))))
            generated = [loc for loc in raw]
            shape = ",".join(f"{loc}:{type(v[1]).__name__}:{len(v[1]) if hasattr(v[1], '__len__') else ''}" for loc, v in sorted(raw.items()))
            sample = None
            if generated and samples < 2:
                samples += 1
                sample = {"version": version, "cfg": cfg, "declared": {k: {n: s for n, (s, _) in v.items()} for k, v in declared.items() if v}, "raw": {k: v[1] for k, v in raw.items()}}
            emit.case(sig=f"{op_idx}|{shard}|{version}|{cfg}|{shape}|{hash(repr(sorted((k, repr(v[1])) for k, v in raw.items())))}" if generated else None, sample=sample)
            for key, what in viols:
                emit.viol(key, what, {"doc": doc, "cfg": cfg, "raw": {k: v[1] for k, v in raw.items()}})


def replay(case):
    return []

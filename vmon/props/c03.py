"""C03 — coverage-phase cases carry labels that match their content.

Monitor: (A) every value the boundary-value generator yields at the top level (`coverage.cover_schema_iter`, tapped
through the module attribute the builder looks up), with the schema it was asked for; (B) every `Case` produced by
`_iter_coverage_cases(operation, modes, unexpected_methods)` with its metadata (description, parameter, per-part
modes, case mode). Oracle: validity of the value against the schema under the document's JSON Schema dialect, and the
labelling rule of the statement.
"""

from __future__ import annotations

import itertools
import copy
import json
import random
import time

import jsonschema

from vmon.gen import schemas as gen
from vmon.oracles import oas_schema
from vmon.props.c01 import declared_parameters

ID = "C03"
LEVEL = "exploration"
RULE = (
    "schemas: an exhaustive small numeric grammar (bounds from {absent,-1,0,1,5} incl. equal and exclusive in both dialects, "
    "multipleOf {absent,2,3}), string lengths {absent,0,1,3} x 12 patterns, enum/const, arrays, objects with required/optional/"
    "additional properties, allOf/anyOf/oneOf, nullable, examples/defaults, plus the C01 pools, placed in path/query/header/cookie/"
    "body of OpenAPI 3.0/3.1/2.0 operations; generation modes {P}, {N}, {P,N}. Non-trivial = a yielded value / case; distinct = "
    "distinct (schema, mode, value, description)"
)
ASSUMPTIONS = [
    "values equal to one of the schema author's example/examples/default values are exempt",
    "formats without an exact independent checker are not judged; schemas passed to the generator that still contain $ref are not judged at value level",
    "non-body parts of a case are read through string coercion (some typed reading of the string must be acceptable)",
]
MIN_EVALUATIONS = {"quick": 12000, "thorough": 150000}
MIN_NONTRIVIAL = {"quick": 1200, "thorough": 6000}
REACH_FLOORS = {"values_positive": 3000, "values_negative": 5000, "cases_seen": 3000, "cases_negative": 1500}
SHARD_TIMEOUT = {"quick": 900, "thorough": 5400}

NEGATIVE_DESCRIPTION_PREFIXES = ("Missing ", "Duplicate ", "Unspecified HTTP method")


def numeric_grammar():
    out = []
    bounds = [None, -1, 0, 1, 5]
    for ty in ("integer", "number"):
        for lo, hi in itertools.product(bounds, repeat=2):
            if lo is not None and hi is not None and lo > hi:
                continue
            for ex_lo, ex_hi in itertools.product([False, True], repeat=2):
                if (ex_lo and lo is None) or (ex_hi and hi is None):
                    continue
                if lo is not None and hi is not None and (ex_lo or ex_hi) and hi - lo < (2 if ty == "integer" else 1):
                    continue  # keep the schema satisfiable
                for mult in (None, 2, 3):
                    if mult and ty == "number":
                        continue
                    if mult and lo is not None and hi is not None:
                        values = [v for v in range(lo + (1 if ex_lo else 0), hi + (0 if ex_hi else 1)) if v % mult == 0]
                        if not values:
                            continue
                    s = {"type": ty}
                    if lo is not None:
                        s["minimum"] = lo
                        if ex_lo:
                            s["exclusiveMinimum"] = True
                    if hi is not None:
                        s["maximum"] = hi
                        if ex_hi:
                            s["exclusiveMaximum"] = True
                    if mult:
                        s["multipleOf"] = mult
                    out.append(s)
    return out


def string_grammar():
    out = []
    patterns = [None, "^[a-z]+$", "^[0-9]{2,4}$", "ab", "^(ab)+$", "^x?$", "[xyz]$", "^\\d{3}-\\d{2}$", "^(foo|bar)$", "[0-9]$", "\\d{2}$"]
    for lo, hi in itertools.product([None, 0, 1, 3], repeat=2):
        if lo is not None and hi is not None and lo > hi:
            continue
        for pattern in patterns:
            s = {"type": "string"}
            if lo is not None:
                s["minLength"] = lo
            if hi is not None:
                s["maxLength"] = hi
            if pattern:
                s["pattern"] = pattern
                # keep only satisfiable combinations (a witness must exist)
                import re

                witnesses = ["", "a", "ab", "abab", "x", "12", "123", "1234", "abx", "123-45", "foo", "bar", "abc", "xab"]
                if not any(re.search(pattern, w) and (lo is None or len(w) >= lo) and (hi is None or len(w) <= hi) for w in witnesses):
                    continue
            out.append(s)
    out += [
        {"type": "string", "enum": ["a", "b"]},
        {"type": "string", "format": "date"},
        {"type": "string", "format": "uuid"},
        {"type": "string", "example": "seen-before", "minLength": 20},
        {"type": "integer", "default": 100, "maximum": 5},
        {"type": "integer", "enum": [1, 2, 3]},
        {"type": "boolean"},
        {"type": "integer", "nullable": True, "minimum": 3},
    ]
    return out


EXTRA_BODY = [
    {"type": "array", "items": {"type": "integer", "minimum": 1}, "minItems": 1, "maxItems": 3},
    {"type": "array", "items": {"type": "integer"}, "minItems": 2, "maxItems": 2},
    {"type": "array", "items": {"type": "string", "minLength": 1}, "minItems": 3, "maxItems": 3},
    {"type": "array", "items": {"type": "boolean"}, "minItems": 2, "maxItems": 4},
    {"type": "array", "items": {"type": "integer"}, "maxItems": 0},
    {"type": "array", "items": {"type": "string", "enum": ["a", "b", "c"]}, "uniqueItems": True},
    {"type": "object", "properties": {"a": {"type": "integer", "minimum": 0}, "b": {"type": "string", "minLength": 1}}, "required": ["a"]},
    {"type": "object", "properties": {"a": {"type": "integer"}}, "required": ["a"], "additionalProperties": False},
    {"anyOf": [{"type": "integer", "minimum": 10}, {"type": "string", "maxLength": 2}]},
    {"oneOf": [{"type": "integer", "multipleOf": 2}, {"type": "string", "minLength": 1}]},
    # a value taken from one branch may violate the whole schema: overlapping oneOf branches, keywords next to the combinator
    {"oneOf": [{"type": "integer", "minimum": 0, "maximum": 5}, {"type": "number", "minimum": -1, "maximum": 1}]},
    {"anyOf": [{"type": "integer", "minimum": 5}, {"type": "integer", "minimum": 7}], "maximum": 6},
    {"anyOf": [{"type": "string", "minLength": 4}, {"type": "string", "pattern": "^[a-z]+$"}], "maxLength": 3},
    {"allOf": [{"type": "object", "properties": {"a": {"type": "integer"}}, "required": ["a"]}, {"type": "object", "properties": {"b": {"type": "string"}}, "required": ["b"]}]},
    {"type": "object", "nullable": True, "properties": {"x": {"type": "integer"}}, "required": ["x"]},
    # size bounds next to required / optional properties, one-sided and two-sided
    {"type": "object", "properties": {"a": {"type": "integer"}, "b": {"type": "string"}, "c": {"type": "boolean"}}, "required": ["a"], "minProperties": 2},
    {"type": "object", "properties": {"a": {"type": "integer"}, "b": {"type": "string"}, "c": {"type": "boolean"}}, "minProperties": 2},
    {"type": "object", "properties": {"a": {"type": "integer"}, "b": {"type": "string"}, "c": {"type": "boolean"}}, "required": ["a"], "maxProperties": 2},
    {"type": "object", "properties": {"a": {"type": "integer"}, "b": {"type": "string"}, "c": {"type": "boolean"}}, "required": ["a", "b"], "minProperties": 3, "maxProperties": 3},
]


EXTRA_31 = [
    {"type": ["number", "null"], "minimum": 0},
    {"type": ["integer", "string"], "maximum": 10},
    {"type": ["string", "null"], "minLength": 2},
    {"type": "number", "exclusiveMinimum": 0, "exclusiveMaximum": 10},
    {"const": "fixed"},
    {"type": ["array", "null"], "items": {"type": "integer"}, "minItems": 1},
    {"type": ["boolean", "integer"]},
]


def composite(rng, pool):
    """-> (schema in 3.0 spelling, location)"""
    kind = rng.choice(["object", "object", "array", "array", "anyOf", "oneOf", "nullable", "allOf"])
    pick = lambda: copy.deepcopy(rng.choice(pool))
    if kind == "object":
        names = rng.sample(["a", "b", "c", "d-e", "f g"], rng.randint(1, 3))
        schema = {"type": "object", "properties": {n: pick() for n in names}}
        required = [n for n in names if rng.random() < 0.6]
        if required:
            schema["required"] = required
        if rng.random() < 0.4:
            schema["additionalProperties"] = False
        if rng.random() < 0.2:
            schema["minProperties"] = 1
        return schema, "body"
    if kind == "array":
        schema = {"type": "array", "items": pick()}
        lo = rng.choice([None, 0, 1, 2, 3])
        hi = rng.choice([None, 0, 1, 2, 3, 5])
        if lo is not None:
            schema["minItems"] = lo
        if hi is not None and (lo is None or hi >= lo):
            schema["maxItems"] = hi
        items = schema["items"]
        tiny_domain = "enum" in items or items.get("type") == "boolean" or ("minimum" in items and "maximum" in items) or items.get("maxLength", 9) <= 1
        if rng.random() < 0.25 and not (tiny_domain and (lo or 0) > 1):
            schema["uniqueItems"] = True  # (kept satisfiable: enough distinct item values for minItems)
        return schema, rng.choice(["body", "body", "query", "header", "cookie"])
    if kind in ("anyOf", "oneOf"):
        return {kind: [pick(), pick()]}, "body"
    if kind == "nullable":
        schema = pick()
        schema["nullable"] = True
        return schema, rng.choice(["body", "query"])
    first = pick()
    return {"allOf": [first, {"type": first.get("type", "string"), "description": "second branch"}]}, "body"


def plan(tier, seed):
    nshards = 16 if tier == "quick" else 32
    return [{"tier": tier, "seed": seed, "shard": i, "nshards": nshards} for i in range(nshards)]


def authors_values(schema):
    out = []
    if isinstance(schema, dict):
        for key in ("example", "default"):
            if key in schema:
                out.append(schema[key])
        if isinstance(schema.get("examples"), list):
            out.extend(schema["examples"])
        for value in schema.values():
            if isinstance(value, dict):
                out.extend(authors_values(value))
            elif isinstance(value, list):
                for v in value:
                    out.extend(authors_values(v))
    return out


def coerce_readings(value):
    """Typed readings of a wire string."""
    if not isinstance(value, str):
        return [value]
    out = [value]
    if value in ("true", "True"):
        out.append(True)
    if value in ("false", "False"):
        out.append(False)
    if value in ("null", "None"):
        out.append(None)
    try:
        out.append(int(value))
    except ValueError:
        try:
            out.append(float(value))
        except ValueError:
            pass
    return out


def sibling_explains(schema, value, is_valid):
    """True when `value` conforms to `schema` only thanks to an alternative: it is rejected by at least one branch of an
    anyOf / oneOf (or the typed side of a nullable schema) somewhere along the value, i.e.
    a value derived by negating ONE alternative is accepted by a sibling one."""
    if not isinstance(schema, dict):
        return False
    for key in ("anyOf", "oneOf"):
        branches = schema.get(key)
        if isinstance(branches, list) and len(branches) > 1:
            verdicts = [is_valid(value, b) for b in branches]
            if any(verdicts) and not all(verdicts):
                return True
            # alternatives nested inside a branch (a nullable schema as a branch of another combinator)
            if any(sibling_explains(b, value, is_valid) for b in branches if isinstance(b, dict)):
                return True
    if schema.get("nullable") or schema.get("x-nullable"):
        typed = {k: v for k, v in schema.items() if k not in ("nullable", "x-nullable")}
        verdicts = [is_valid(value, typed), value is None]
        if any(verdicts) and not all(verdicts):
            return True
    # (a list of types is negated as a whole by the generator, not type by type: it is not an "alternative" here)
    if isinstance(value, dict):
        for name, sub in value.items():
            sub_schema = (schema.get("properties") or {}).get(name)
            if sub_schema is not None and sibling_explains(sub_schema, sub, is_valid):
                return True
    if isinstance(value, list) and isinstance(schema.get("items"), dict):
        return any(sibling_explains(schema["items"], sub, is_valid) for sub in value)
    return False


def invalid_author_values(schema, is_valid, depth=0):
    """True if somewhere in the schema the author's own example / default violates the sub-schema it annotates: values
    built from those are the author's, not the generator's (not judged)."""
    if not isinstance(schema, dict) or depth > 6:
        return False
    bare = {k: v for k, v in schema.items() if k not in ("example", "examples", "default", "x-example", "x-examples")}
    for v in authors_values(schema):
        if not is_valid(v, bare):
            return True
    for key in ("properties",):
        for sub in (schema.get(key) or {}).values():
            if invalid_author_values(sub, is_valid, depth + 1):
                return True
    for key in ("items", "additionalProperties", "not"):
        if invalid_author_values(schema.get(key), is_valid, depth + 1):
            return True
    for key in ("anyOf", "oneOf", "allOf"):
        for sub in schema.get(key) or []:
            if invalid_author_values(sub, is_valid, depth + 1):
                return True
    return False


def array_readings(value, pschema):
    """Readings of a delimiter-joined wire string for a parameter declared as an array (csv is the default
    collectionFormat in 2.0 and what `simple` / non-exploded `form` produce in 3.x)."""
    types = pschema.get("type")
    types = types if isinstance(types, list) else [types]
    if not isinstance(value, str) or "array" not in types:
        return []
    if value == "":
        return [[], [""]]  # no items, or one empty item
    parts = value.split(",")
    typed = []
    for part in parts:
        readings = coerce_readings(part)
        typed.append(readings[-1] if len(readings) > 1 else part)
    return [parts, typed]


def run_shard(spec, emit):
    import schemathesis
    from schemathesis.core.result import Ok
    from schemathesis.generation import GenerationMode, coverage
    from schemathesis.generation.hypothesis import builder
    from schemathesis.generation.meta import ComponentKind

    tier, seed, shard, nshards = spec["tier"], spec["seed"], spec["shard"], spec["nshards"]
    rng = random.Random(f"{seed}:C03:{shard}")
    # ---- tap (A)
    tapped = []
    original = coverage.cover_schema_iter

    def tap(ctx, schema, seen=None):
        top = not ctx.path
        gen_ = original(ctx, schema, seen) if seen is not None else original(ctx, schema)
        if not top:
            yield from gen_
            return
        for value in gen_:
            tapped.append((ctx.location, json.loads(json.dumps(schema, default=str)) if isinstance(schema, dict) else schema, value))
            yield value

    coverage.cover_schema_iter = tap

    pool = numeric_grammar() + string_grammar()
    primitives = [s for i, s in enumerate(pool) if i % nshards == shard]
    extra = [s for s, _ in gen.PRIMITIVES + gen.ARRAYS]
    deadline = time.monotonic() + (85 if tier == "quick" else 300)
    mode_sets = [[GenerationMode.POSITIVE], [GenerationMode.NEGATIVE], [GenerationMode.POSITIVE, GenerationMode.NEGATIVE]]
    samples = 0
    jobs = []
    for s in primitives:
        for location in ("query", "path", "header", "body"):
            jobs.append((s, location))
    for s in EXTRA_BODY:
        jobs.append((s, "body"))
        if s.get("type") == "array":
            jobs.append((s, "query"))
    # JSON Schema 2020-12 spellings (OpenAPI 3.1 only): type lists, numeric exclusive bounds, const
    for s in EXTRA_31:
        jobs.append((s, "body31"))
        jobs.append((s, "query31"))
    if tier == "thorough":
        for s in extra:
            for location in ("query", "cookie", "body"):
                jobs.append((s, location))
    rng.shuffle(jobs)
    if tier == "thorough":
        # after the grammar: random compositions of its elements (objects, arrays, combinators, nullable / type lists)
        full_pool = pool + extra
        for _ in range(4000):
            jobs.append(composite(rng, full_pool))
    if tier == "quick":
        special = [j for j in jobs if j[1].endswith("31") or j[0] in EXTRA_BODY]
        rest = [j for j in jobs if j not in special]
        jobs = special + rest[:230]
    for schema30, location in jobs:
        if time.monotonic() > deadline:
            emit.count("jobs_skipped_budget")
            continue
        version = rng.choice(["3.0", "3.0", "3.1", "2.0"])
        if version == "2.0" and location == "cookie":
            version = "3.0"
        if location.endswith("31"):
            version, location = "3.1", location[:-2]
            adapted = schema30
        else:
            adapted = gen.adapt(schema30, version)
        params = []
        op = {"responses": {"200": {"description": "ok"}}}
        template = "/op"
        if location == "path":
            template = "/op/{v}"
        if location == "body":
            if version == "2.0":
                params.append({"name": "payload", "in": "body", "required": True, "schema": adapted})
            else:
                op["requestBody"] = {"required": True, "content": {"application/json": {"schema": adapted}}}
            # one more parameter so that "Missing ..." cases exist
            params.append({"name": "q", "in": "query", "required": True, **({"schema": {"type": "integer"}} if version != "2.0" else {"type": "integer"})})
        else:
            p = {"name": "v", "in": location, "required": True}
            if version == "2.0":
                p.update(adapted)
            else:
                p["schema"] = adapted
            params.append(p)
        op["parameters"] = params
        method = "post" if location == "body" else "get"
        if version == "2.0":
            doc = {"swagger": "2.0", "info": {"title": "t", "version": "1"}, "paths": {template: {method: op}}}
            if location == "body":
                op["consumes"] = ["application/json"]
        else:
            doc = {"openapi": "3.0.2" if version == "3.0" else "3.1.0", "info": {"title": "t", "version": "1"}, "paths": {template: {method: op}}}
        declared, bodies, _, _ = declared_parameters(doc, version)
        documented = {method.upper()}
        if rng.random() < 0.3:
            # more than one documented method, the path item possibly behind a reference
            item = doc["paths"][template]
            item["put" if method != "put" else "patch"] = {"responses": {"200": {"description": "ok"}}}
            item["delete"] = {"responses": {"200": {"description": "ok"}}}
            documented = {m.upper() for m in item}
            if rng.random() < 0.6:
                doc["x-path-items"] = {"Shared": item}
                doc["paths"][template] = {"$ref": "#/x-path-items/Shared"}
                emit.count("path_items_behind_reference")
        try:
            schema = schemathesis.openapi.from_dict(doc)
            operation = next(r.ok() for r in schema.get_all_operations() if isinstance(r, Ok) and r.ok().method.upper() == method.upper())
        except Exception as exc:
            emit.viol("C03/generated-document-not-loadable", f"{type(exc).__name__}: {exc}"[:200], {"doc": doc})
            continue
        validator_cls = jsonschema.Draft202012Validator if version == "3.1" else jsonschema.Draft4Validator
        for modes in mode_sets:
            del tapped[:]
            try:
                cases = list(builder._iter_coverage_cases(operation, modes, None))
            except Exception as exc:
                if type(exc).__name__ in ("InvalidArgument", "Unsatisfiable") and "unique elements" in str(exc):
                    emit.count("not_judged_unsatisfiable_schema")  # the generated schema admits no value at all
                    continue
                emit.viol("C03/coverage-generation-crashed", f"{type(exc).__name__}: {exc}"[:250], {"doc": doc, "modes": [m.value for m in modes]})
                continue
            context = {"doc": doc, "modes": [m.value for m in modes]}
            # ---- (A) value level
            for loc, passed, value in tapped:
                if not isinstance(passed, dict) or "$ref" in json.dumps(passed):
                    continue
                if "type" in passed and any(k in passed for k in ("anyOf", "oneOf", "allOf")) and loc in ("header", "cookie", "path", "query"):
                    continue  # the product's internal string-typed wrapper around a combinator, not the author's schema
                exempt = any(value.value == a and type(value.value) is type(a) for a in authors_values(passed))

                def plain_valid(v, sch, _cls=validator_cls):
                    try:
                        return _cls(sch, format_checker=oas_schema.FORMAT_CHECKER).is_valid(v)
                    except Exception:
                        return True

                try:
                    valid = validator_cls(passed, format_checker=oas_schema.FORMAT_CHECKER).is_valid(value.value)
                except Exception:
                    continue
                if not exempt and not valid and value.generation_mode == GenerationMode.POSITIVE and invalid_author_values(passed, plain_valid):
                    emit.count("not_judged_author_value_violates_own_schema")
                    exempt = True
                label = value.generation_mode
                emit.count("values_positive" if label == GenerationMode.POSITIVE else "values_negative")
                sig = f"{json.dumps(passed, sort_keys=True)}|{label.value}|{value.value!r:.40}|{value.description}"
                emit.case(sig=sig, sample={"schema": passed, "label": label.value, "value": value.value, "description": value.description} if samples < 2 else None)
                samples += 1
                if exempt:
                    continue
                if label == GenerationMode.POSITIVE and not valid:
                    kws = sorted({e.validator for e in validator_cls(passed, format_checker=oas_schema.FORMAT_CHECKER).iter_errors(value.value)})
                    key = f"C03/value-labelled-valid-violates-schema:{'+'.join(kws)}"
                    if kws and set(kws) <= {"minLength", "maxLength"} and "pattern" in passed:
                        key = "C03/value-labelled-valid-violates-schema:length-after-pattern-length-rewrite"
                    if isinstance(passed.get("exclusiveMinimum"), bool) or isinstance(passed.get("exclusiveMaximum"), bool):
                        key += ":boolean-exclusive-bound"
                    emit.viol(key, f"{value.value!r:.60} ({value.description}) for {passed}", dict(context, schema=passed))
                if label == GenerationMode.NEGATIVE and valid:
                    desc = (value.description or "").split(":")[0][:40]
                    key = f"C03/value-labelled-invalid-conforms-to-schema:{desc}"
                    if isinstance(passed.get("exclusiveMinimum"), bool) or isinstance(passed.get("exclusiveMaximum"), bool):
                        key += ":boolean-exclusive-bound"
                    if sibling_explains(passed, value.value, plain_valid):
                        # one mechanism whatever the description of the negated branch says
                        key = "C03/value-labelled-invalid-conforms-to-schema:valid-for-a-sibling-branch"
                    emit.viol(key, f"{value.value!r:.60} ({value.description}) for {passed}", dict(context, schema=passed))
            # ---- (B) case level
            for case in cases:
                emit.count("cases_seen")
                meta = case.meta
                data = meta.phase.data
                component_negative = any(info.mode == GenerationMode.NEGATIVE for info in meta.components.values())
                special = bool(data.description) and data.description.startswith(NEGATIVE_DESCRIPTION_PREFIXES)
                expected_negative = component_negative or special
                is_negative = meta.generation.mode == GenerationMode.NEGATIVE
                if is_negative:
                    emit.count("cases_negative")
                if is_negative != expected_negative:
                    which = "negative-without-negative-part" if is_negative else "positive-with-negative-part"
                    emit.viol(f"C03/case-label-{which}", f"case mode {meta.generation.mode.value}, parts { {k.value: v.mode.value for k, v in meta.components.items()} }, description {data.description!r}", context)
                if special and data.description.startswith("Unspecified HTTP method"):
                    emit.count("unspecified_method_cases")
                    if case.method.upper() in documented:
                        emit.viol("C03/documented-method-labelled-unspecified", f"{case.method} is documented ({sorted(documented)}) but the case says {data.description!r}", context)
                if special:
                    continue
                # component label vs content (body: JSON as is; other parts: through string coercion)
                info = meta.components.get(ComponentKind.BODY)
                if info is not None and bodies and not isinstance(case.body, type(None)) and case.body is not schemathesis.core.NOT_SET:
                    body_schema = bodies[0][1]
                    if "$ref" not in json.dumps(body_schema):
                        valid = oas_schema.is_valid(case.body, body_schema, doc=doc, version=version, mode="request")
                        exempt = any(case.body == a for a in authors_values(body_schema))

                        def body_valid(v, sch):
                            try:
                                return oas_schema.is_valid(v, sch, doc=doc, version=version, mode="request")
                            except Exception:
                                return True

                        if not exempt and not valid and info.mode == GenerationMode.POSITIVE and invalid_author_values(body_schema, body_valid):
                            exempt = True
                        if not exempt and info.mode == GenerationMode.POSITIVE and not valid:
                            kws = sorted(oas_schema.failing_keywords(case.body, body_schema, doc=doc, version=version, mode="request"))
                            key = f"C03/body-labelled-valid-violates-schema:{'+'.join(kws)}"
                            if set(kws) <= {"minLength", "maxLength"} and "pattern" in json.dumps(body_schema):
                                key = "C03/body-labelled-valid-violates-schema:length-after-pattern-length-rewrite"
                            emit.viol(key, f"body={case.body!r:.80} ({data.description}) schema={body_schema}", context)
                        if not exempt and info.mode == GenerationMode.NEGATIVE and valid:
                            key = "C03/body-labelled-invalid-conforms-to-schema:" + (data.description or "").split(":")[0][:40]
                            if sibling_explains(body_schema, case.body, body_valid):
                                key = "C03/body-labelled-invalid-conforms-to-schema:valid-for-a-sibling-branch"
                            emit.viol(key, f"body={case.body!r:.80} ({data.description}) schema={body_schema}", context)
                for loc, attr in (("query", "query"), ("path", "path_parameters"), ("header", "headers"), ("cookie", "cookies")):
                    info = meta.components.get(ComponentKind(attr))
                    container = getattr(case, attr)
                    if info is None or not declared[loc] or not container:
                        continue
                    verdicts = []
                    for name, (pschema, _) in declared[loc].items():
                        if name not in container:
                            continue
                        raw = container[name]
                        if isinstance(raw, (dict, list)):
                            verdicts.append(None)
                            continue
                        items = pschema.get("items") if isinstance(pschema, dict) else None
                        if isinstance(items, dict) and (items.get("type") in ("array", "object") or any(k in items for k in ("anyOf", "oneOf", "allOf"))):
                            verdicts.append(None)  # no defined text form for nested containers in this location
                            continue
                        if loc == "path" and isinstance(raw, str):
                            from urllib.parse import unquote

                            raw = unquote(raw)
                        readings = coerce_readings(raw) + array_readings(raw, pschema)
                        if raw == "" and (pschema.get("nullable") or pschema.get("x-nullable") or (isinstance(pschema.get("type"), list) and "null" in pschema["type"])):
                            readings.append(None)  # how a null is written in these locations
                        if isinstance(items, dict) and items.get("type") == "string" and not any(k in items for k in ("enum", "pattern", "format")) and "," in str(raw):
                            verdicts.append(None)  # free-text items may contain the delimiter themselves: the text form is ambiguous
                            continue
                        if any(raw == str(a) or raw == a for a in authors_values(pschema)):
                            verdicts.append(None)
                            continue
                        verdicts.append(any(oas_schema.is_valid(r, pschema, doc=doc, version=version, mode="request") for r in readings))
                    if None in verdicts or not verdicts:
                        continue
                    if info.mode == GenerationMode.POSITIVE and not all(verdicts):
                        key = f"C03/part-labelled-valid-violates-schema:{loc}"
                        only_length = True
                        for name, (pschema, _) in declared[loc].items():
                            if name in container and not isinstance(container[name], (dict, list)):
                                kws = set()
                                for r in coerce_readings(container[name]) + array_readings(container[name], pschema):
                                    kws = oas_schema.failing_keywords(r, pschema, doc=doc, version=version, mode="request")
                                    if not kws:
                                        break
                                if kws and not (kws <= {"minLength", "maxLength"} and "pattern" in pschema):
                                    only_length = False
                        if only_length:
                            key = "C03/part-labelled-valid-violates-schema:length-after-pattern-length-rewrite"
                        emit.viol(key, f"{attr}={dict(container)!r:.100} ({data.description}) declared={ {n: s for n, (s, _) in declared[loc].items()} }", context)
                    if info.mode == GenerationMode.NEGATIVE and all(verdicts) and data.parameter_location == loc:
                        # wire-level reading of a negated part: reported as a statistic only (e.g. "0" for an integer)
                        emit.count("negative_parts_valid_after_string_coercion")
    coverage.cover_schema_iter = original


def replay(case):
    return []

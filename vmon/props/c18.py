"""C18 — resource-lifecycle findings follow from the observed history.

Monitor: the real `use_after_free` / `ensure_resource_availability` check functions are called, exactly as the
engine calls them (on the newest node of a `ScenarioRecorder`, through a `CheckContext` backed by it), on
enumerated scenario trees built from real `Case` / `Response` objects. Oracle: two predicates written from the
property statement (vmon.oracles.lifecycle), which never look at the product's path-matching helpers.
"""

from __future__ import annotations

import itertools
import random
import time

from vmon.oracles import lifecycle

ID = "C18"
LEVEL = "exploration"
RULE = (
    "histories = scenario forests over operations {POST /users, GET|DELETE /users/{id}, "
    "GET /users/{user_id}/posts/{pid}, POST /orders, GET|DELETE /orders/{id}}, identifiers {1,11,(2),'1'}, "
    "status classes {2xx,403,404,500,(302,400)}, parent links, link-supplied vs generated parameters; all histories "
    "of length<=3 are enumerated (exhaustive), longer ones (4..7 nodes) are seeded-random; the checks are evaluated on "
    "the newest node. A history is non-trivial when the reference predicate says a finding is due for at least one "
    "of the two checks or the history contains a DELETE; distinct = distinct (structure, verdict) signatures"
)
ASSUMPTIONS = [
    "Case/Response/Recorder objects are hand-built (meta=None or meta with generated components), not produced by a live run",
    "RNAAC is judged in one direction only (reported => conditions hold), as the statement says 'only for'",
    "a parent POST answered 3xx is not judged for RNAAC ('successful' is ambiguous there)",
]
EXHAUSTIVE = {"quick": False, "thorough": False}
MIN_EVALUATIONS = {"quick": 50_000, "thorough": 500_000}
MIN_NONTRIVIAL = {"quick": 500, "thorough": 2000}
REACH_FLOORS = {"uaf_reported": 100, "rnaac_reported": 100, "uaf_due": 100}
SHARD_TIMEOUT = {"quick": 900, "thorough": 5400}

OPS = [
    ("post", "/users", ()),
    ("get", "/users/{id}", ("id",)),
    ("delete", "/users/{id}", ("id",)),
    ("get", "/users/{user_id}/posts/{pid}", ("user_id", "pid")),
    ("post", "/orders", ()),
    ("get", "/orders/{id}", ("id",)),
    ("delete", "/orders/{id}", ("id",)),
]
# operations that also take a query parameter: it may come from the link like the path parameters, or be generated
QUERY_PARAMS = {1: ("expand",), 5: ("page",)}


def node_alphabet(ids, statuses):
    out = []
    for op_idx, (_m, _p, variables) in enumerate(OPS):
        for values in itertools.product(ids, repeat=len(variables)):
            for status in statuses:
                out.append((op_idx, values, status))
    return out


def plan(tier, seed):
    nshards = 16 if tier == "quick" else 32
    return [{"tier": tier, "seed": seed, "shard": i, "nshards": nshards} for i in range(nshards)]


DOC = {
    "openapi": "3.0.2",
    "info": {"title": "t", "version": "1"},
    "paths": {},
}


def build_schema():
    import schemathesis

    doc = {"openapi": "3.0.2", "info": {"title": "t", "version": "1"}, "paths": {}}
    for op_idx, (method, path, variables) in enumerate(OPS):
        item = doc["paths"].setdefault(path, {})
        item[method] = {
            "parameters": [{"name": v, "in": "path", "required": True, "schema": {"type": "integer"}} for v in variables]
            + [{"name": q, "in": "query", "required": True, "schema": {"type": "integer"}} for q in QUERY_PARAMS.get(op_idx, ())],
            "responses": {"200": {"description": "ok"}},
        }
    schema = schemathesis.openapi.from_dict(doc)
    schema.base_url = "http://127.0.0.1:1"
    return schema


class Builder:
    """Builds recorder histories out of node specs and evaluates both checks on the newest node."""

    def __init__(self):
        import requests

        from schemathesis.checks import CheckContext
        from schemathesis.core.failures import Failure
        from schemathesis.core.transport import Response
        from schemathesis.engine.recorder import ScenarioRecorder
        from schemathesis.generation import GenerationMode
        from schemathesis.generation.meta import (
            CaseMetadata,
            ComponentInfo,
            ComponentKind,
            GenerationInfo,
            PhaseInfo,
        )
        from schemathesis.specs.openapi.checks import (
            EnsureResourceAvailability,
            UseAfterFree,
            ensure_resource_availability,
            use_after_free,
        )

        self.schema = build_schema()
        self.operations = [self.schema[path][method.upper()] for method, path, _ in OPS]
        self.prepared = requests.Request("GET", "http://127.0.0.1:1/").prepare()
        self.Response = Response
        self.Recorder = ScenarioRecorder
        self.CheckContext = CheckContext
        self.uaf = use_after_free
        self.rnaac = ensure_resource_availability
        self.UseAfterFree = UseAfterFree
        self.EnsureResourceAvailability = EnsureResourceAvailability
        self.Failure = Failure

        self.ComponentKind = ComponentKind

        def generated_meta(*kinds):
            return CaseMetadata(
                generation=GenerationInfo(time=0.0, mode=GenerationMode.POSITIVE),
                components={kind: ComponentInfo(mode=GenerationMode.POSITIVE) for kind in (kinds or (ComponentKind.PATH_PARAMETERS,))},
                phase=PhaseInfo.generate(),
            )

        self.generated_meta = generated_meta

    def make_case(self, op_idx, values, from_link):
        operation = self.operations[op_idx]
        variables = OPS[op_idx][2]
        path_parameters = dict(zip(variables, values)) if variables else None
        # link-supplied parameters: the container is not a generated component, so the product reads all its
        # current values as overrides; generated ones: container is a generated component and nothing was changed.
        queries = QUERY_PARAMS.get(op_idx, ())
        query = {q: 7 for q in queries} or None
        if from_link == "path" and queries:
            # path parameters from the link, the query generated and left as it was
            meta = self.generated_meta(self.ComponentKind.QUERY)
        else:
            meta = None if from_link else self.generated_meta(self.ComponentKind.PATH_PARAMETERS, *([self.ComponentKind.QUERY] if queries else []))
        return operation.Case(path_parameters=path_parameters, query=query, meta=meta)

    def evaluate(self, history):
        """history: list of (op_idx, values, status, parent_index|None, from_link). Returns (uaf, rnaac) booleans."""
        recorder = self.Recorder(label="verif")
        cases = []
        for op_idx, values, status, parent, from_link in history:
            case = self.make_case(op_idx, values, from_link)
            parent_id = cases[parent].id if parent is not None else None
            recorder.record_case(parent_id=parent_id, transition=None, case=case)
            response = self.Response(
                status_code=status, headers={}, content=b"", request=self.prepared, elapsed=0.0, verify=False
            )
            recorder.record_response(case_id=case.id, response=response)
            cases.append(case)
            last_response = response
        ctx = self.CheckContext(
            override=None, auth=None, headers=None, config={}, transport_kwargs=None, recorder=recorder
        )
        case = cases[-1]
        outcome = []
        for check, expected_failure in ((self.uaf, self.UseAfterFree), (self.rnaac, self.EnsureResourceAvailability)):
            try:
                check(ctx, last_response, case)
                outcome.append(False)
            except expected_failure:
                outcome.append(True)
            except self.Failure as exc:  # some other failure type
                outcome.append(f"other-failure:{type(exc).__name__}")
            except Exception as exc:  # check crashed
                outcome.append(f"crash:{type(exc).__name__}:{exc}")
        return outcome


def to_model(history):
    nodes = []
    for op_idx, values, status, parent, from_link in history:
        method, path, variables = OPS[op_idx]
        nodes.append(
            lifecycle.Node(
                method=method.upper(),
                template=path,
                variables=dict(zip(variables, values)),
                status=status,
                parent=parent,
                # an operation without parameters has "all" of them from the link, vacuously
                all_from_link=(from_link is True) or (from_link == "path" and not QUERY_PARAMS.get(op_idx)) or (not variables and not QUERY_PARAMS.get(op_idx)),
            )
        )
    return nodes


def classify(kind, history, expected, got):
    """Mechanism key from structural facts of the witness."""
    nodes = to_model(history)
    last = nodes[-1]
    if isinstance(got, str):
        return f"C18/{kind}-check-{got.split(':')[0]}"
    if kind == "uaf":
        deletes = [
            n
            for i, n in enumerate(nodes[:-1])
            if n.method == "DELETE" and lifecycle.same_tree(nodes, i, len(nodes) - 1)
        ]
        if got and not expected:
            # accused although no successful DELETE of this resource exists
            if any(lifecycle.is_resource_prefix(d, last) and not (200 <= d.status < 300) for d in deletes):
                return "C18/uaf-reported-for-failed-delete"
            return "C18/uaf-reported-without-matching-delete"
        if expected and not got:
            due = [d for d in deletes if lifecycle.is_resource_prefix(d, last) and 200 <= d.status < 300]
            if due and all(d.parent is None for d in due):
                return "C18/uaf-missed-root-delete"
            if due and all(
                d.parent is not None and not (200 <= nodes[d.parent].status < 300) for d in due if d.parent is not None
            ):
                return "C18/uaf-missed-delete-whose-parent-failed"
            return "C18/uaf-missed"
    else:
        if got and not expected:
            return "C18/rnaac-reported-without-conditions"
    return f"C18/{kind}-unclassified"


def check_history(builder, history):
    nodes = to_model(history)
    exp_uaf = lifecycle.uaf_due(nodes)
    exp_rnaac = lifecycle.rnaac_allowed(nodes)  # True / False / None(abstain)
    got_uaf, got_rnaac = builder.evaluate(history)
    violations = []
    if got_uaf != exp_uaf:
        violations.append(
            (
                classify("uaf", history, exp_uaf, got_uaf),
                f"use_after_free reported={got_uaf} but reference says due={exp_uaf}",
            )
        )
    if isinstance(got_rnaac, str) or (got_rnaac is True and exp_rnaac is False):
        violations.append(
            (
                classify("rnaac", history, exp_rnaac, got_rnaac),
                f"ensure_resource_availability reported={got_rnaac} but reference allows={exp_rnaac}",
            )
        )
    return exp_uaf, exp_rnaac, got_uaf, got_rnaac, violations


def describe(history):
    out = []
    for op_idx, values, status, parent, from_link in history:
        method, path, variables = OPS[op_idx]
        out.append(
            {
                "op": f"{method.upper()} {path}",
                "params": dict(zip(variables, values)),
                "status": status,
                "parent": parent,
                "params_from_link": from_link if isinstance(from_link, str) else bool(from_link),
            }
        )
    return out


def signature(history, verdicts):
    parts = []
    for op_idx, values, status, parent, from_link in history:
        parts.append(f"{op_idx}:{','.join(map(str, values))}:{status // 100}:{parent}:{from_link if isinstance(from_link, str) else int(from_link)}")
    return "|".join(parts) + "=>" + ",".join(str(v) for v in verdicts)


def enumerate_histories(alphabet, length):
    """All forests of `length` nodes: each node picks a symbol and a parent among earlier nodes or none.

    `from_link` only matters on the newest node (it is read from the checked case only)."""
    parent_choices = [[None] + list(range(i)) for i in range(length)]
    for symbols in itertools.product(alphabet, repeat=length):
        for parents in itertools.product(*parent_choices):
            for last_from_link in (True, False, "path") if QUERY_PARAMS.get(symbols[-1][0]) else (True, False):
                yield [
                    (s[0], s[1], s[2], parents[i], last_from_link if i == length - 1 else True)
                    for i, s in enumerate(symbols)
                ]


def run_shard(spec, emit):
    tier, seed, shard, nshards = spec["tier"], spec["seed"], spec["shard"], spec["nshards"]
    builder = Builder()
    if tier == "quick":
        ids, statuses = [1, 11], [200, 403, 404, 410, 500]
        budget_s, random_cap = 35.0, 400_000
    else:
        ids, statuses = [1, 2, 11, "1"], [200, 204, 302, 400, 403, 404, 410, 500]
        budget_s, random_cap = 150.0, 20_000_000
    alphabet = node_alphabet(ids, statuses)
    started = time.monotonic()
    n = 0
    samples_left = 2

    def handle(history, exhaustive_part):
        nonlocal samples_left
        exp_uaf, exp_rnaac, got_uaf, got_rnaac, violations = check_history(builder, history)
        nontrivial = exp_uaf or exp_rnaac or got_uaf is True or got_rnaac is True or any(
            OPS[h[0]][0] == "delete" for h in history
        )
        sample = None
        if nontrivial and samples_left > 0 and (exp_uaf or got_rnaac is True):
            samples_left -= 1
            sample = {"history": describe(history), "uaf_reported": got_uaf, "rnaac_reported": got_rnaac}
        emit.case(sig=signature(history, (got_uaf, got_rnaac)) if nontrivial else None, sample=sample)
        emit.count("evaluations_exhaustive" if exhaustive_part else "evaluations_random")
        if exp_uaf:
            emit.count("uaf_due")
        if got_uaf is True:
            emit.count("uaf_reported")
        if got_rnaac is True:
            emit.count("rnaac_reported")
        if exp_rnaac is True:
            emit.count("rnaac_allowed_situations")
            if got_rnaac is True:
                emit.count("rnaac_reported_when_allowed")
        if exp_rnaac is None:
            emit.count("rnaac_abstain")
        for key, what in violations:
            emit.viol(key, what, {"history": describe(history), "raw": history})

    # exhaustive part: lengths 1..3 (quick alphabet: 56 symbols -> ~2.1M histories of length 3, sharded)
    max_len = 3
    complete = True
    for length in range(1, max_len + 1):
        for i, history in enumerate(enumerate_histories(alphabet, length)):
            if i % nshards != shard:
                continue
            if tier == "thorough" and length == 3 and (i // nshards) % 7 != seed % 7:
                # thorough alphabet is 4x larger: length 3 is covered as a 1/7 residue class picked by the seed
                complete = False
                continue
            handle(history, True)
            n += 1
            if n % 2000 == 0 and time.monotonic() - started > budget_s * 4:
                complete = False
                break
        else:
            continue
        break
    emit.count("exhaustive_complete_shards" if complete else "exhaustive_incomplete_shards")

    # random part: longer histories, checked after every append (as the engine does)
    rng = random.Random(f"{seed}:C18:{shard}")
    deadline = time.monotonic() + budget_s * (0.5 if tier == "quick" else 1.0)
    done = 0
    while done < random_cap and time.monotonic() < deadline:
        length = rng.randint(4, 7)
        history = []
        # bias towards interesting shapes: few resources, many deletes
        for i in range(length):
            op_idx, values, status = rng.choice(alphabet)
            if rng.random() < 0.5:
                status = rng.choice([200, 201, 204])
            parent = rng.choice([None] + list(range(i))) if rng.random() < 0.8 else None
            history.append((op_idx, values, status, parent, rng.choice([True, True, False, "path"]) if QUERY_PARAMS.get(op_idx) else rng.random() < 0.7))
            if i >= 3:
                handle(list(history), False)
                done += 1


def replay(case):
    builder = Builder()
    history = [tuple(h[:1]) + (tuple(h[1]),) + tuple(h[2:]) for h in case["raw"]]
    _, _, _, _, violations = check_history(builder, history)
    return [{"key": k, "what": w} for k, w in violations]

"""C08 — every documented operation is offered with its effective parameters, or reported.

Monitor: results of `get_all_operations()`, `schema[path][method]`, `get_operation_by_id`, `get_operation_by_reference`
(in every order of those four access methods, because they share caches) on generated documents; each operation's
parameter sets and body alternatives are compared with an independent computation of the effective inputs from the
raw document. The same document is loaded from JSON text, from YAML text (block style with unquoted numeric /
boolean-looking keys and timestamps) and from a multi-file layout with relative references.
"""

from __future__ import annotations

import copy
import itertools
import json
import os
import random
import re
import shutil
import tempfile
import time

from vmon.oracles import oas_schema

ID = "C08"
LEVEL = "exploration"
RULE = (
    "documents: 2-4 path items with parameters at path and operation level (same/different name, same/different location, "
    "$ref'd at either level, nested $ref), a path item behind $ref, a recursive schema, security schemes (apiKey header/query/"
    "cookie, http), malformed entries (unresolvable $ref, parameter without `in`), several body media types, Swagger 2.0 "
    "body/formData x consumes; each serialised as JSON, as YAML (unquoted 200/404 keys, on/off/yes/no property names, ISO "
    "timestamps) and as a multi-file layout; all 24 orders of the four access methods. Non-trivial = the document has an "
    "override, a $ref'd parameter or a malformed entry; distinct = distinct (document shape, access order)"
)
ASSUMPTIONS = [
    "parameter schemas are compared after $ref inlining; only name, location, required flag and schema are compared",
    "remote (http) references are out of scope (no network)",
]
MIN_EVALUATIONS = {"quick": 1500, "thorough": 20000}
MIN_NONTRIVIAL = {"quick": 800, "thorough": 10000}
REACH_FLOORS = {"documents_with_override": 20, "yaml_documents": 40, "multifile_documents": 10, "error_operations_expected": 10, "lookups_by_reference": 500}
SHARD_TIMEOUT = {"quick": 900, "thorough": 5400}

METHODS = ("get", "put", "post", "delete", "options", "head", "patch", "trace")
PARAM_POOL = [
    ("id", "path", {"type": "integer"}),
    ("id", "query", {"type": "string"}),
    ("q", "query", {"type": "integer", "minimum": 1}),
    ("q", "query", {"type": "string", "enum": ["a", "b"]}),
    ("X-Trace", "header", {"type": "string"}),
    ("X-Trace", "header", {"type": "integer"}),
    ("sid", "cookie", {"type": "string"}),
    ("limit", "query", {"type": "integer", "maximum": 50}),
    # named like the apiKey security parameters, but in the other location: different parameters
    ("api_key", "header", {"type": "string"}),
    ("X-API-Key", "query", {"type": "string"}),
    # property names that YAML 1.1 reads as booleans / numbers / null when unquoted
    ("flt", "query", {"type": "object", "properties": {"on": {"type": "integer"}, "1.0": {"type": "integer"}, "null": {"type": "string"}, "no": {"type": "boolean"}}}),
]
HOSTILE_KEYS = ["null", "~", "1.0", "2.50", ".5", "1e3", "1.5e3", ".inf", ".nan", "0x1F", "0o17", "017", "1_000", "2020-01-01", "2021-03-04T05:06:07Z", "True", "NO", "y", "n", "12:30:15", "+1", "-0"]
YAML_TOKENS = ["200", "404", "on", "off", "yes", "no", "2020-01-01", "2021-03-04T05:06:07Z", "1e3", "null", "true", "0o17"]


def gen_document(rng, version):
    """-> (doc, facts)"""
    three = version != "2.0"
    doc = {"openapi": "3.0.2" if version == "3.0" else "3.1.0"} if three else {"swagger": "2.0"}
    doc["info"] = {"title": "t", "version": "1"}
    components_params = {}
    components_schemas = {
        "Node": {"type": "object", "properties": {"next": {"$ref": "#/components/schemas/Node" if three else "#/definitions/Node"}, "v": {"type": "integer"}}},
        "Word": {"type": "string", "minLength": 2},
        "on": {"type": "object", "properties": {"on": {"type": "boolean"}, "off": {"type": "string", "example": "2020-01-01"}, "yes": {"type": "string", "enum": ["no", "2021-03-04T05:06:07Z"]}}},
        # property names that YAML 1.1 reads as null / float / int / timestamp when they are not quoted
        "odd": {"type": "object", "properties": {k: {"type": "integer"} for k in rng.sample(HOSTILE_KEYS, 4)}},
    }
    param_ref_prefix = "#/components/parameters/" if three else "#/parameters/"
    schema_ref_prefix = "#/components/schemas/" if three else "#/definitions/"
    facts = {"override": False, "ref_param": False, "malformed": 0, "path_item_ref": False}

    def param(name, where, schema, required=None):
        p = {"name": name, "in": where}
        if where == "path":
            p["required"] = True
        elif required is None:
            p["required"] = rng.random() < 0.5
        else:
            p["required"] = required
        if three:
            p["schema"] = copy.deepcopy(schema)
        else:
            p.update(copy.deepcopy(schema))
        return p

    def maybe_ref(p):
        if rng.random() < 0.35:
            key = f"P{len(components_params)}"
            components_params[key] = p
            facts["ref_param"] = True
            if rng.random() < 0.3:
                # nested reference
                key2 = f"P{len(components_params)}"
                components_params[key2] = {"$ref": param_ref_prefix + key}
                return {"$ref": param_ref_prefix + key2}
            return {"$ref": param_ref_prefix + key}
        return p

    paths = {}
    n_paths = rng.randint(2, 4)
    templates = rng.sample(["/users/{id}", "/items/{id}", "/orders", "/status", "/files/{id}/meta"], n_paths)
    for template in templates:
        item = {}
        needs_id = "{id}" in template
        shared = []
        if needs_id and rng.random() < 0.6:
            shared.append(maybe_ref(param("id", "path", {"type": "integer"})))
        shared_used = set()
        for name, where, schema in rng.sample(PARAM_POOL[2:], rng.randint(0, 2)):
            if (name, where) in shared_used:
                continue
            shared_used.add((name, where))
            shared.append(maybe_ref(param(name, where, schema)))
        if shared:
            item["parameters"] = shared
        for method in rng.sample(["get", "post", "put", "delete"], rng.randint(1, 3)):
            op = {"responses": {"200": {"description": "ok"}, "404": {"description": "nf"}}}
            params = []
            shared_keys = set()
            for s in shared:
                s = oas_schema.deref({"components": {"parameters": components_params}, "parameters": components_params}, s)
                shared_keys.add((s["name"], s["in"]))
            if needs_id and not any(k == ("id", "path") for k in shared_keys):
                params.append(maybe_ref(param("id", "path", {"type": "integer"})))
            used = {("id", "path")} if needs_id else set()
            for name, where, schema in rng.sample(PARAM_POOL[1:], rng.randint(0, 3)):
                if (name, where) in used:
                    continue  # a parameter list must not contain duplicates
                used.add((name, where))
                p = param(name, where, schema)
                if (name, where) in shared_keys:
                    facts["override"] = True
                params.append(maybe_ref(p))
            if rng.random() < 0.12:
                params.append({"$ref": param_ref_prefix + "DoesNotExist"})
                facts["malformed"] += 1
                op["x-malformed"] = True
            if params:
                op["parameters"] = params
            if method in ("post", "put"):
                body_schema = rng.choice([{"$ref": schema_ref_prefix + "Node"}, {"type": "object", "properties": {"a": {"$ref": schema_ref_prefix + "Word"}}}, {"$ref": schema_ref_prefix + "on"}, {"$ref": schema_ref_prefix + "odd"}])
                if three:
                    media = rng.sample(["application/json", "application/xml", "text/plain", "application/x-www-form-urlencoded"], rng.randint(1, 2))
                    op["requestBody"] = {"required": rng.random() < 0.7, "content": {m: {"schema": copy.deepcopy(body_schema)} for m in media}}
                else:
                    if rng.random() < 0.7:
                        op["consumes"] = rng.sample(["application/json", "application/xml"], rng.randint(1, 2))
                    # (else: the document-level `consumes` applies; an operation-level list replaces it)
                    op.setdefault("parameters", []).append({"name": "payload", "in": "body", "required": True, "schema": copy.deepcopy(body_schema)})
            if rng.random() < 0.3:
                op["security"] = [{rng.choice(["ApiKeyHeader", "ApiKeyQuery", "Basic"]): []}]
            if rng.random() < 0.5:
                op["operationId"] = f"{method}{re.sub('[^a-z]', '', template)}{rng.randint(0, 99)}"
            item[method] = op
        paths[template] = item
    if three and rng.random() < 0.4:
        # move one path item behind a reference
        template = rng.choice(list(paths))
        doc.setdefault("components", {}).setdefault("x-items", {})["Moved"] = paths[template]
        paths[template] = {"$ref": "#/components/x-items/Moved"}
        facts["path_item_ref"] = True
    doc["paths"] = paths
    schemes = {
        "ApiKeyHeader": {"type": "apiKey", "in": "header", "name": "X-API-Key"},
        "ApiKeyQuery": {"type": "apiKey", "in": "query", "name": "api_key"},
        "Basic": {"type": "http", "scheme": "basic"} if three else {"type": "basic"},
    }
    if three:
        comp = doc.setdefault("components", {})
        comp["parameters"] = components_params
        comp["schemas"] = components_schemas
        comp["securitySchemes"] = schemes
    else:
        doc["consumes"] = rng.choice([["text/plain"], ["application/xml", "application/json"], ["application/json"]])
        doc["parameters"] = components_params
        doc["definitions"] = components_schemas
        doc["securityDefinitions"] = schemes
    return doc, facts


# ---------------------------------------------------------------------------- reference: effective inputs
def inline(doc, schema, depth=0):
    if isinstance(schema, dict):
        if "$ref" in schema and depth < 4:
            try:
                return inline(doc, oas_schema.resolve_pointer(doc, schema["$ref"]), depth + 1)
            except Exception:
                return schema
        if "$ref" in schema:
            return {"$recursive": schema["$ref"]}
        return {k: inline(doc, v, depth) for k, v in schema.items()}
    if isinstance(schema, list):
        return [inline(doc, v, depth) for v in schema]
    return schema


def reference_operations(doc):
    """-> {label: {"params": {(loc, name): (required, schema)}, "bodies": set(media types)} | "ERROR"}"""
    out = {}
    version = oas_schema.doc_version(doc)
    for template, item in doc["paths"].items():
        try:
            item = oas_schema.deref(doc, item)
        except Exception:
            out[f"* {template}"] = "ERROR"
            continue
        shared = item.get("parameters", [])
        for method, op in item.items():
            if method not in METHODS:
                continue
            label = f"{method.upper()} {template}"
            try:
                effective = {}
                for raw in list(shared) + list(op.get("parameters", [])):
                    p = oas_schema.deref(doc, raw)
                    if "$ref" in p:
                        raise KeyError("unresolvable")
                    if p.get("in") == "body":
                        continue
                    schema = p.get("schema") if version != "2.0" else {k: v for k, v in p.items() if k not in ("name", "in", "required", "description")}
                    effective[(p["in"], p["name"])] = (bool(p.get("required", False)), inline(doc, schema))
                bodies = set()
                if version != "2.0":
                    body = oas_schema.deref(doc, op.get("requestBody", {}))
                    bodies = set((body.get("content") or {}).keys())
                else:
                    if any(oas_schema.deref(doc, raw).get("in") == "body" for raw in op.get("parameters", [])):
                        bodies = set(op.get("consumes") or doc.get("consumes") or ["application/json"])
                security = set()
                definitions = (doc.get("components", {}).get("securitySchemes") if version != "2.0" else doc.get("securityDefinitions")) or {}
                for requirement in op.get("security", doc.get("security", [])) or []:
                    for scheme_name in requirement:
                        scheme = definitions.get(scheme_name) or {}
                        if scheme.get("type") == "apiKey" and scheme.get("in") in ("header", "query", "cookie"):
                            security.add((scheme["in"], scheme["name"]))
                out[label] = {"params": effective, "bodies": bodies, "security": security}
            except Exception:
                out[label] = "ERROR"
    return out


# ---------------------------------------------------------------------------- observation
def describe_operation(operation, doc):
    params = {}
    for container, loc in (("path_parameters", "path"), ("query", "query"), ("headers", "header"), ("cookies", "cookie")):
        for p in getattr(operation, container):
            definition = p.definition
            schema = definition.get("schema") if "swagger" not in doc else {k: v for k, v in definition.items() if k not in ("name", "in", "required", "description")}
            key = (loc, p.name)
            params.setdefault(key, []).append((bool(p.is_required), inline(doc, schema)))
    bodies = set()
    for b in operation.body:
        bodies.add(b.media_type)
    return {"params": params, "bodies": bodies}


SECURITY_PARAMS = {("header", "X-API-Key"), ("query", "api_key"), ("header", "Authorization")}


def compare(label, ref, obs, how):
    viols = []
    if ref == "ERROR":
        return viols
    obs_params = {k: v for k, v in obs["params"].items() if k not in SECURITY_PARAMS or k in ref["params"]}
    for key, values in obs_params.items():
        if len(values) > 1:
            viols.append(("C08/parameter-present-twice", f"{label} [{how}]: {key} appears {len(values)} times: {values}"))
    missing = set(ref["params"]) - set(obs_params)
    lost_security = ref.get("security", set()) - set(obs["params"])
    if lost_security:
        viols.append(("C08/security-parameter-missing", f"{label} [{how}]: active apiKey requirement without its parameter {sorted(lost_security)}"))
    extra = set(obs_params) - set(ref["params"])
    if missing:
        viols.append(("C08/effective-parameter-missing", f"{label} [{how}]: missing {sorted(missing)}"))
    if extra:
        viols.append(("C08/unexpected-parameter", f"{label} [{how}]: extra {sorted(extra)}"))
    for key in set(ref["params"]) & set(obs_params):
        expected = ref["params"][key]
        got = obs_params[key][-1] if len(obs_params[key]) == 1 else None
        if got is not None and (got[0] != expected[0] or got[1] != expected[1]):
            # which definition did the product take?
            viols.append(("C08/parameter-definition-differs-from-effective-one", f"{label} [{how}]: {key} is {got}, effective definition is {expected}"))
    if obs["bodies"] != ref["bodies"]:
        viols.append(("C08/request-body-alternatives-differ", f"{label} [{how}]: {sorted(obs['bodies'])} vs documented {sorted(ref['bodies'])}"))
    return viols


class Checker:
    def __init__(self):
        import schemathesis
        from schemathesis.core.result import Ok

        self.schemathesis = schemathesis
        self.Ok = Ok

    def load(self, doc, how, scratch):
        if how == "dict":
            return self.schemathesis.openapi.from_dict(copy.deepcopy(doc))
        if how == "json":
            return self.schemathesis.openapi.from_file(json.dumps(doc))
        if how == "yaml":
            return self.schemathesis.openapi.from_file(to_hostile_yaml(doc))
        if how == "multifile":
            path = write_multifile(doc, scratch)
            return self.schemathesis.openapi.from_path(path)
        raise AssertionError(how)

    def check(self, doc, facts, how, order, scratch):
        viols = []
        ref = reference_operations(doc)
        try:
            schema = self.load(doc, how, scratch)
        except Exception as exc:
            return [("C08/document-not-loadable:" + how, f"{type(exc).__name__}: {exc}"[:300])], 0
        if how in ("yaml", "json", "multifile"):
            # the loaded tree equals the JSON reading: keys stay strings, no dates
            expected_raw = doc if how != "multifile" else None
            if expected_raw is not None and schema.raw_schema != expected_raw:
                diff = first_tree_difference(expected_raw, schema.raw_schema)
                viols.append((f"C08/{how}-loaded-document-differs-from-json-reading", diff))
        lookups = 0
        seen_labels = {}
        by_id = {}
        for label, r in ref.items():
            if label.startswith("* "):
                continue
        accessors = {
            "iterate": lambda: self.iterate(schema, doc, ref, how),
            "subscript": lambda: self.subscript(schema, doc, ref, how),
            "by_id": lambda: self.by_id(schema, doc, ref, how),
            "by_ref": lambda: self.by_ref(schema, doc, ref, how),
            "interleaved": lambda: self.interleaved(schema, doc, ref, how),
        }
        for name in order:
            v, n = accessors[name]()
            viols += [(k, f"(access order {'>'.join(order)}) {w}") for k, w in v]
            lookups += n
        return viols, lookups

    def iterate(self, schema, doc, ref, how):
        viols = []
        seen = {}
        errors = []
        for result in schema.get_all_operations():
            if isinstance(result, self.Ok):
                op = result.ok()
                seen.setdefault(op.label, []).append(op)
            else:
                err = result.err()
                errors.append((getattr(err, "method", None), getattr(err, "path", None), str(err)[:80]))
        for label, r in ref.items():
            if label.startswith("* "):
                if not any(e[1] == label[2:] for e in errors):
                    viols.append(("C08/unresolvable-path-item-not-reported", label))
                continue
            method, template = label.split(" ", 1)
            if r == "ERROR":
                if label in seen:
                    continue  # the product may be more lenient than the reference about what is an error: not judged
                if not any(e[1] == template for e in errors):
                    viols.append(("C08/invalid-operation-silently-dropped", f"{label}: neither offered nor reported with its path"))
                continue
            if label not in seen:
                if any(e[1] == template and (e[0] or "").upper() in (method, "") for e in errors):
                    viols.append(("C08/valid-operation-reported-as-error", f"{label} [{how}]: {[e for e in errors if e[1] == template][:1]}"))
                else:
                    viols.append(("C08/operation-silently-dropped", f"{label} [{how}]"))
                continue
            if len(seen[label]) != 1:
                viols.append(("C08/operation-offered-more-than-once", f"{label} x{len(seen[label])}"))
            viols += compare(label, r, describe_operation(seen[label][0], doc), how + ":iterate")
        for label in seen:
            if label not in ref:
                viols.append(("C08/undocumented-operation-offered", label))
        return viols, len(seen)

    def interleaved(self, schema, doc, ref, how):
        """Look operations up while an iteration over all operations is suspended (the engine does this between phases
        and with several workers): both views must still agree with the document."""
        viols, n = [], 0
        pending = [label for label in ref if not label.startswith("* ")]
        seen = set()
        for result in schema.get_all_operations():
            for label in pending[:2]:
                method, template = label.split(" ", 1)
                viols += self._lookup(lambda: schema[template][method], label, ref[label], doc, how, "subscript-during-iteration")
                n += 1
            pending = pending[2:]
            if isinstance(result, self.Ok):
                op = result.ok()
                seen.add(op.label)
                r = ref.get(op.label)
                if r is None:
                    viols.append(("C08/undocumented-operation-offered", op.label))
                elif r != "ERROR":
                    viols += compare(op.label, r, describe_operation(op, doc), how + ":iterate-with-lookups")
        for label, r in ref.items():
            if not label.startswith("* ") and r != "ERROR" and label not in seen:
                viols.append(("C08/operation-silently-dropped", f"{label} [{how}] (iteration interleaved with lookups)"))
        return viols, n

    def _lookup(self, getter, label, r, doc, how, kind):
        try:
            op = getter()
        except Exception as exc:
            if r == "ERROR":
                return []
            return [(f"C08/lookup-failed:{kind}", f"{label} [{how}]: {type(exc).__name__}: {exc}"[:250])]
        if op.label != label:
            return [(f"C08/lookup-returned-another-operation:{kind}", f"asked {label}, got {op.label}")]
        if r == "ERROR":
            return []
        return compare(label, r, describe_operation(op, doc), f"{how}:{kind}")

    def subscript(self, schema, doc, ref, how):
        viols, n = [], 0
        for label, r in ref.items():
            if label.startswith("* "):
                continue
            method, template = label.split(" ", 1)
            viols += self._lookup(lambda: schema[template][method], label, r, doc, how, "subscript")
            n += 1
        return viols, n

    def by_id(self, schema, doc, ref, how):
        viols, n = [], 0
        for template, item in doc["paths"].items():
            item = oas_schema.deref(doc, item)
            for method, op in item.items():
                if method in METHODS and "operationId" in op:
                    label = f"{method.upper()} {template}"
                    viols += self._lookup(lambda: schema.get_operation_by_id(op["operationId"]), label, ref[label], doc, how, "by-id")
                    n += 1
        return viols, n

    def by_ref(self, schema, doc, ref, how):
        viols, n = [], 0
        for template, item in doc["paths"].items():
            if "$ref" in item:
                continue
            for method in item:
                if method in METHODS:
                    label = f"{method.upper()} {template}"
                    pointer = "#/paths/" + template.replace("~", "~0").replace("/", "~1") + "/" + method
                    viols += self._lookup(lambda: schema.get_operation_by_reference(pointer), label, ref[label], doc, how, "by-reference")
                    n += 1
        return viols, n


def first_tree_difference(a, b, path=""):
    if type(a) is not type(b):
        return f"{path or '/'}: {type(a).__name__} {a!r:.60} vs {type(b).__name__} {b!r:.60}"
    if isinstance(a, dict):
        for k in a:
            if k not in b:
                return f"{path}/{k}: key missing (keys there: {[repr(x) for x in b][:6]})"
            d = first_tree_difference(a[k], b[k], f"{path}/{k}")
            if d:
                return d
        for k in b:
            if k not in a:
                return f"{path}/{k!r}: unexpected key of type {type(k).__name__}"
        return None
    if isinstance(a, list):
        if len(a) != len(b):
            return f"{path}: length {len(a)} vs {len(b)}"
        for i, (x, y) in enumerate(zip(a, b)):
            d = first_tree_difference(x, y, f"{path}/{i}")
            if d:
                return d
        return None
    return None if a == b else f"{path}: {a!r:.60} vs {b!r:.60}"


def to_hostile_yaml(doc):
    """Block-style YAML in which string scalars that look like numbers / booleans / dates are written UNQUOTED when
    they are mapping keys, and date-like strings are written unquoted as values (what people write by hand)."""
    import yaml

    text = yaml.safe_dump(doc, sort_keys=False, default_flow_style=False)
    # keys: '200': -> 200:   'on': -> on:
    text = re.sub(r"^(\s*)'(200|404|on|off|yes|no)':", r"\1\2:", text, flags=re.M)
    hostile = "|".join(re.escape(k) for k in HOSTILE_KEYS)
    text = re.sub(rf"^(\s*)'({hostile})':", r"\1\2:", text, flags=re.M)
    # date-like values
    text = re.sub(r"'(2020-01-01|2021-03-04T05:06:07Z)'", r"\1", text)
    return text


def write_multifile(doc, scratch):
    """Split components into a second file and the first path item into a third one, with relative references.
    The referenced files are JSON or hand-style YAML (by a hash of the document, so both occur)."""
    os.makedirs(os.path.join(scratch, "shared"), exist_ok=True)
    as_yaml = len(json.dumps(doc)) % 2 == 0
    ext = "yaml" if as_yaml else "json"

    def dump(obj, path):
        with open(path, "w") as fd:
            fd.write(to_hostile_yaml(obj) if as_yaml else json.dumps(obj))

    doc = copy.deepcopy(doc)
    three = "openapi" in doc
    params = doc["components"].pop("parameters") if three else doc.pop("parameters")
    prefix = "#/components/parameters/" if three else "#/parameters/"

    def rewrite(node, rel):
        if isinstance(node, dict):
            if "$ref" in node and isinstance(node["$ref"], str) and node["$ref"].startswith(prefix):
                node["$ref"] = rel + "#/" + node["$ref"][len(prefix):]
            for v in node.values():
                rewrite(v, rel)
        elif isinstance(node, list):
            for v in node:
                rewrite(v, rel)

    moved = doc.get("components", {}).get("x-items", {}).pop("Moved", None) if three else None
    if moved is not None:
        # the referenced path item lives in another directory; its references are relative to its own file, and a
        # decoy with the same relative name but different definitions sits next to it
        os.makedirs(os.path.join(scratch, "items", "shared"), exist_ok=True)
        rewrite(moved, f"../shared/params.{ext}")

        def reroot(node):
            if isinstance(node, dict):
                if isinstance(node.get("$ref"), str) and node["$ref"].startswith("#/"):
                    node["$ref"] = "../root.json" + node["$ref"]
                for v in node.values():
                    reroot(v)
            elif isinstance(node, list):
                for v in node:
                    reroot(v)

        reroot(moved)
        dump({"Moved": moved}, os.path.join(scratch, "items", f"moved.{ext}"))
        decoy = copy.deepcopy(params)
        for entry in decoy.values():
            if "$ref" in entry:
                entry["$ref"] = f"params.{ext}#/" + entry["$ref"][len(prefix):] if entry["$ref"].startswith(prefix) else entry["$ref"]
            elif "schema" in entry:
                entry["schema"] = {"type": "boolean", "description": "decoy"}
                entry["required"] = True
        dump(decoy, os.path.join(scratch, "items", "shared", f"params.{ext}"))
        for template, item in doc["paths"].items():
            if item == {"$ref": "#/components/x-items/Moved"}:
                doc["paths"][template] = {"$ref": f"items/moved.{ext}#/Moved"}
    rewrite(doc["paths"], f"shared/params.{ext}")
    rewrite(doc.get("components", {}).get("x-items", {}), f"shared/params.{ext}")
    rewrite(params, f"params.{ext}")
    dump(params, os.path.join(scratch, "shared", f"params.{ext}"))
    path = os.path.join(scratch, "root.json")
    with open(path, "w") as fd:
        json.dump(doc, fd)
    return path


def reference_for_multifile(doc):
    return reference_operations(doc)


def plan(tier, seed):
    nshards = 16 if tier == "quick" else 32
    return [{"tier": tier, "seed": seed, "shard": i, "nshards": nshards} for i in range(nshards)]


def run_shard(spec, emit):
    tier, seed, shard = spec["tier"], spec["seed"], spec["shard"]
    rng = random.Random(f"{seed}:C08:{shard}")
    checker = Checker()
    n_docs = 25 if tier == "quick" else 300
    orders = list(itertools.permutations(["iterate", "subscript", "by_id", "by_ref"]))
    deadline = time.monotonic() + (80 if tier == "quick" else 300)
    samples = 0
    for d in range(n_docs):
        if time.monotonic() > deadline:
            break
        version = rng.choice(["3.0", "3.0", "3.1", "2.0"])
        doc, facts = gen_document(rng, version)
        if facts["override"]:
            emit.count("documents_with_override")
        ref = reference_operations(doc)
        emit.count("error_operations_expected", sum(1 for v in ref.values() if v == "ERROR"))
        for how in ("dict", "json", "yaml", "multifile"):
            if how == "multifile" and facts["malformed"]:
                continue
            my_orders = orders if how == "dict" else rng.sample(orders, 4)
            extra = rng.sample(orders, 2)
            my_orders = list(my_orders) + [("interleaved",) + extra[0], extra[1] + ("interleaved",), ("interleaved",)]
            for order in my_orders:
                scratch = tempfile.mkdtemp(prefix="verif-c08-")
                try:
                    viols, lookups = checker.check(doc, facts, how, order, scratch)
                finally:
                    shutil.rmtree(scratch, ignore_errors=True)
                nontrivial = facts["override"] or facts["ref_param"] or facts["malformed"] or facts["path_item_ref"]
                shape = f"{version}|{sorted((t, sorted(k for k in (i if '$ref' not in i else {}) if k in METHODS)) for t, i in doc['paths'].items())}|{facts}"
                sample = None
                if nontrivial and samples < 1 and how == "yaml":
                    samples += 1
                    sample = {"facts": facts, "version": version, "yaml_head": to_hostile_yaml(doc)[:600], "operations": sorted(ref)}
                emit.case(sig=f"{shape}|{how}|{order}" if nontrivial else None, sample=sample)
                emit.count({"yaml": "yaml_documents", "multifile": "multifile_documents", "json": "json_documents", "dict": "dict_documents"}[how])
                emit.count("lookups_by_reference", lookups)
                for key, what in viols:
                    emit.viol(key, what, {"doc": doc, "how": how, "order": order})


def replay(case):
    checker = Checker()
    scratch = tempfile.mkdtemp(prefix="verif-c08-")
    try:
        viols, _ = checker.check(case["doc"], {"malformed": 0}, case["how"], case["order"], scratch)
    finally:
        shutil.rmtree(scratch, ignore_errors=True)
    return [{"key": k, "what": w} for k, w in viols]

"""C16 — report files are well-formed and faithful to the traffic.

Monitor: the files written by the real `CassetteWriter` (VCR, HAR) and `JunitXMLHandler` when they are driven (a) with
synthesised `ScenarioFinished` / `NonFatalError` / `EngineFinished` events built from hand-made recorders (real `Case`,
`Response`, prepared requests) and (b) by real `st run --report ...` runs; exceptions of the handlers and of the
writer threads are observed through `threading.excepthook`. Oracle: independent parsers (yaml.safe_load, json, ElementTree)
and field-by-field comparison with what was delivered.
"""

from __future__ import annotations

import base64
import json
import os
import random
import tempfile
import threading
import time
import xml.etree.ElementTree as ET

ID = "C16"
LEVEL = "exploration"
RULE = (
    "synthetic histories: 1-4 scenarios x 1-3 exchanges with URLs containing quotes, #, %, spaces, unicode; header values over "
    "latin-1 incl. quotes/backslashes/colons; bodies with control characters, \\x85, U+2028, invalid UTF-8, empty, absent; responses with "
    "encoding None/utf-8/latin-1; network errors without a response; case metadata none/fuzzing/coverage (with and without parameter); "
    "check lists empty/passed/failed; the same failure re-found under another label and in a later phase; preserve-bytes on/off; plus real "
    "CLI runs with --report vcr,har,junit. Non-trivial = history with a hostile character class or a failure; distinct = distinct "
    "(format, options, history shape)"
)
ASSUMPTIONS = [
    "bodies that are not valid UTF-8 are only compared when preserve-bytes is on",
    "JUnit: well-formedness, no crash, and a testcase per label with failures where scenarios failed",
]
MIN_EVALUATIONS = {"quick": 1000, "thorough": 30000}
MIN_NONTRIVIAL = {"quick": 600, "thorough": 15000}
REACH_FLOORS = {"vcr_files_parsed": 200, "har_files_parsed": 200, "junit_files_parsed": 200, "interactions_compared": 1500}
SHARD_TIMEOUT = {"quick": 900, "thorough": 5400}

URLS = [
    "http://127.0.0.1:1/items/1",
    "http://127.0.0.1:1/items?q=it's",
    "http://127.0.0.1:1/items?q=%22quoted%22&x=a%20b",
    "http://127.0.0.1:1/a%23b?z=%C3%A9",
    "http://127.0.0.1:1/items?q='; drop: 1#frag",
    "http://127.0.0.1:1/%F0%9F%98%80/x?y=\\n",
    "http://127.0.0.1:1/i?colon=a: b&brace={x}",
    # credentials in the authority (replaced by a marker when sanitisation is on)
    "http://user:pw@127.0.0.1:1/items?api_key=abc&q=1",
    "http://:pw@127.0.0.1:1/items",
    "http://tok@127.0.0.1:1/items?q=it's",
]
HEADER_VALUES = ["plain", "it's", 'say "hi"', "back\\slash", "a: b", "é-latin", "x" * 40, "", "{json: [1]}", "- dash", "# hash", "'", "%41", "tab\tin"]
BODIES = [None, "a \u2028 b\t\u2029 c \u2028".encode(), "x\u0085 y \u0085".encode(), b"", b"plain", b'{"a": "it\'s"}', b"line1\nline2", b"ctl\x01\x02\x1f", "next\x85line".encode(), "sep para ".encode(), b"\xff\xfe invalid", b"\xed\xa0\x80", b"'single' \"double\" \\back", b": colon # hash - dash", b"\t tab \r cr", "emoji \U0001f600".encode(), b"x" * 3000]


def plan(tier, seed):
    nshards = 16 if tier == "quick" else 32
    return [{"tier": tier, "seed": seed, "shard": i, "nshards": nshards} for i in range(nshards)]


class Factory:
    def __init__(self):
        import requests
        import schemathesis
        from schemathesis.core.failures import ServerError
        from schemathesis.core.transport import Response
        from schemathesis.engine import Status, events
        from schemathesis.engine.phases import PhaseName
        from schemathesis.engine.recorder import ScenarioRecorder
        from schemathesis.generation import GenerationMode
        from schemathesis.generation.meta import CaseMetadata, ComponentInfo, ComponentKind, GenerationInfo, PhaseInfo

        self.requests = requests
        self.Response = Response
        self.Status = Status
        self.events = events
        self.PhaseName = PhaseName
        self.Recorder = ScenarioRecorder
        self.ServerError = ServerError
        self.meta_types = (CaseMetadata, ComponentInfo, ComponentKind, GenerationInfo, PhaseInfo, GenerationMode)
        doc = {
            "openapi": "3.0.2",
            "info": {"title": "t", "version": "1"},
            "paths": {
                "/items": {"get": {"responses": {"200": {"description": "ok"}}}, "post": {"responses": {"200": {"description": "ok"}}}},
                "/other": {"get": {"responses": {"200": {"description": "ok"}}}},
            },
        }
        self.schema = schemathesis.openapi.from_dict(doc)
        self.schema.base_url = "http://127.0.0.1:1"
        self.ops = {"GET /items": self.schema["/items"]["GET"], "POST /items": self.schema["/items"]["POST"], "GET /other": self.schema["/other"]["GET"]}

    def meta(self, rng):
        CaseMetadata, ComponentInfo, ComponentKind, GenerationInfo, PhaseInfo, GenerationMode = self.meta_types
        kind = rng.choice(["none", "fuzzing", "coverage", "coverage_noparam"])
        if kind == "none":
            return None
        mode = rng.choice([GenerationMode.POSITIVE, GenerationMode.NEGATIVE])
        components = {ComponentKind.QUERY: ComponentInfo(mode=mode)} if rng.random() < 0.7 else {}
        if kind == "fuzzing":
            phase = PhaseInfo.generate()
        elif kind == "coverage":
            phase = PhaseInfo.coverage(description=rng.choice(["Maximum value", 'It\'s "quoted": yes', "Missing `q` at query"]), location="/q", parameter="q", parameter_location="query")
        else:
            phase = PhaseInfo.coverage(description="Default positive test case")
        return CaseMetadata(generation=GenerationInfo(time=0.01, mode=mode), components=components, phase=phase)

    def history(self, rng):
        """-> (list of events, list of expected exchanges)"""
        events = self.events
        out = []
        expected = []
        phases = [self.PhaseName.COVERAGE, self.PhaseName.FUZZING, self.PhaseName.STATEFUL_TESTING]
        import uuid

        for _ in range(rng.randint(1, 4)):
            phase = rng.choice(phases)
            label = rng.choice(list(self.ops)) if phase != self.PhaseName.STATEFUL_TESTING else "Stateful tests"
            recorder = self.Recorder(label=label)
            status = self.Status.SUCCESS
            parent_id = None
            for _ in range(rng.randint(1, 3)):
                op_label = rng.choice(list(self.ops))
                case = self.ops[op_label].Case(meta=self.meta(rng))
                recorder.record_case(parent_id=parent_id if phase == self.PhaseName.STATEFUL_TESTING else None, transition=None, case=case)
                url = rng.choice(URLS)
                body = rng.choice(BODIES)
                headers = {"X-Req": rng.choice(HEADER_VALUES), "Content-Type": rng.choice(["application/json", "text/plain; charset=utf-8"])}
                if rng.random() < 0.4:
                    headers["Cookie"] = rng.choice(["sid=abc123", "a=1; b=two", "t=x-y_z; u=0"])
                request = self.requests.Request(op_label.split()[0], "http://127.0.0.1:1/x", headers=headers, data=body).prepare()
                request.url = url  # keep the hostile URL verbatim, as the engine records what was sent
                exchange = {"id": case.id, "method": request.method, "url": url, "request_headers": dict(request.headers), "request_body": request.body if isinstance(request.body, (bytes, type(None))) else request.body.encode()}
                if rng.random() < 0.12:
                    recorder.record_request(case_id=case.id, request=request)
                    exchange["response"] = None
                    status = max(status, self.Status.ERROR, key=lambda s: ["SUCCESS", "FAILURE", "ERROR"].index(s.name) if s.name in ("SUCCESS", "FAILURE", "ERROR") else 0)
                else:
                    content = rng.choice(BODIES) or b""
                    encoding = rng.choice([None, "utf-8", "latin-1"])
                    resp_status = rng.choice([200, 201, 404, 500, 503])
                    rheaders = {"content-type": ["application/json"], "x-resp": [rng.choice(HEADER_VALUES)], rng.choice(["set-cookie", "Set-Cookie"]): ["a=1; Path=/"]}
                    if rng.random() < 0.3:
                        rheaders["x-many"] = ["one", "two"]  # a header sent on two lines
                    response = self.Response(status_code=resp_status, headers=rheaders, content=content, request=request, elapsed=0.12, verify=False, message=rng.choice(["OK", "Not 'quite'", 'Say "x"']), encoding=encoding)
                    recorder.record_response(case_id=case.id, response=response)
                    exchange["response"] = {"status": resp_status, "headers": rheaders, "content": content, "encoding": encoding}
                    checks = []
                    roll = rng.random()
                    if roll < 0.25:
                        pass
                    else:
                        recorder.record_check_success(name="status_code_conformance", case_id=case.id)
                        checks.append(("status_code_conformance", "SUCCESS"))
                        if resp_status >= 500:
                            failure = self.ServerError(operation=op_label, status_code=resp_status)
                            recorder.record_check_failure(name="not_a_server_error", case_id=case.id, code_sample="curl -X GET 'http://x/it''s'", failure=failure)
                            checks.append(("not_a_server_error", "FAILURE"))
                            status = self.Status.FAILURE if status == self.Status.SUCCESS else status
                    exchange["checks"] = checks
                parent_id = case.id
                expected.append(exchange)
            suite_id = uuid.uuid4()
            out.append(
                events.ScenarioFinished(
                    id=uuid.uuid4(), phase=phase, suite_id=suite_id, label=None if phase == self.PhaseName.STATEFUL_TESTING else label,
                    status=status, recorder=recorder, elapsed_time=0.5, skip_reason=None, is_final=False,
                )
            )
            if rng.random() < 0.15:
                out.append(events.NonFatalError(error=RuntimeError("boom 'quoted' <xml> & more"), phase=phase, label=label, related_to_operation=True))
        out.append(events.EngineFinished(running_time=1.0))
        return out, expected


def drive(factory, history, fmt, preserve_bytes, path, sanitize=False):
    """Feed events to the real handler; -> list of exceptions."""
    from click.utils import LazyFile

    from schemathesis.cli.commands.run.context import ExecutionContext
    from schemathesis.cli.commands.run.handlers.cassettes import CassetteWriter
    from schemathesis.cli.commands.run.handlers.junitxml import JunitXMLHandler
    from schemathesis.cli.commands.run.reports import ReportFormat

    errors = []
    thread_errors = []
    old_hook = threading.excepthook
    threading.excepthook = lambda args: thread_errors.append(f"{args.exc_type.__name__}: {args.exc_value}")
    ctx = ExecutionContext(seed=1)
    lazy = LazyFile(path, "w", encoding="utf-8")
    try:
        if fmt == "junit":
            handler = JunitXMLHandler(lazy)
        else:
            handler = CassetteWriter(format=ReportFormat.VCR if fmt == "vcr" else ReportFormat.HAR, path=lazy, sanitize_output=sanitize, preserve_bytes=preserve_bytes)
        handler.start(ctx)
        for event in history:
            try:
                ctx.on_event(event)
                handler.handle_event(ctx, event)
            except Exception as exc:
                errors.append(f"{type(exc).__name__}: {exc}"[:200])
        handler.shutdown(ctx)
        if fmt != "junit":
            handler.worker.join(10)
            if handler.worker.is_alive():
                errors.append("writer thread did not terminate")
    finally:
        threading.excepthook = old_hook
        try:
            lazy.close()
        except Exception:
            pass
    return errors + ["writer thread died: " + e for e in thread_errors]


def utf8_or_none(data):
    try:
        return data.decode("utf-8")
    except UnicodeDecodeError:
        return None


def check_vcr(path, expected, preserve_bytes, sanitize=False):
    import yaml

    viols = []
    text = open(path, encoding="utf-8", errors="surrogateescape").read()
    try:
        data = yaml.safe_load(text)
    except Exception as exc:
        line = getattr(getattr(exc, "problem_mark", None), "line", None)
        context = text.splitlines()[line][:120] if line is not None and line < len(text.splitlines()) else ""
        field = context.strip().split(":")[0]
        return [(f"C16/vcr-not-valid-yaml:field-{field or '?'}", f"{type(exc).__name__} near {context!r}")], 0
    interactions = data.get("http_interactions") or []
    by_id = {}
    for item in interactions:
        by_id.setdefault(item.get("id"), []).append(item)
    n = 0
    for ex in expected:
        items = by_id.get(ex["id"], [])
        if len(items) != 1:
            viols.append(("C16/vcr-exchange-count", f"exchange {ex['id']} appears {len(items)} times"))
            continue
        item = items[0]
        n += 1
        req = item["request"]
        if req["uri"] != ex["url"] and not sanitize:
            viols.append(("C16/vcr-url-differs", f"{req['uri']!r} vs sent {ex['url']!r}"))
        if req["method"] != ex["method"]:
            viols.append(("C16/vcr-method-differs", f"{req['method']} vs {ex['method']}"))
        got_headers = {k: v[0] for k, v in (req.get("headers") or {}).items()}
        if got_headers != {k: v for k, v in ex["request_headers"].items()} and not sanitize:
            viols.append(("C16/vcr-request-headers-differ", f"{got_headers} vs {ex['request_headers']}"[:300]))
        body = ex["request_body"]
        if body is not None:
            rb = req.get("body") or {}
            if preserve_bytes:
                if base64.b64decode(rb.get("base64_string", "")) != body:
                    viols.append(("C16/vcr-request-body-bytes-differ", f"{rb!r:.100} vs {body!r:.60}"))
            elif utf8_or_none(body) is not None and rb.get("string") != utf8_or_none(body):
                viols.append(("C16/vcr-request-body-text-differs", f"{rb.get('string')!r:.80} vs {utf8_or_none(body)!r:.80}"))
        if ex["response"] is None:
            if item.get("response") is not None:
                viols.append(("C16/vcr-response-invented", "response present for a network error"))
        else:
            resp = item.get("response") or {}
            if str((resp.get("status") or {}).get("code")) != str(ex["response"]["status"]):
                viols.append(("C16/vcr-status-differs", f"{resp.get('status')} vs {ex['response']['status']}"))
            # (header names are case-insensitive: the cassette may spell them in lower case)
            if {k.lower(): v for k, v in (resp.get("headers") or {}).items()} != {k.lower(): v for k, v in ex["response"]["headers"].items()} and not sanitize:
                viols.append(("C16/vcr-response-headers-differ", f"{resp.get('headers')} vs {ex['response']['headers']}"[:300]))
            content = ex["response"]["content"]
            rb = resp.get("body") or {}
            if preserve_bytes:
                if content and base64.b64decode(rb.get("base64_string", "")) != content:
                    viols.append(("C16/vcr-response-body-bytes-differ", f"{rb!r:.100} vs {content!r:.60}"))
            elif utf8_or_none(content) is not None and ex["response"]["encoding"] in (None, "utf-8") and rb.get("string") != utf8_or_none(content):
                viols.append(("C16/vcr-response-body-text-differs", f"{rb.get('string')!r:.80} vs {utf8_or_none(content)!r:.80}"))
            got_checks = [(c["name"], c["status"]) for c in item.get("checks") or []]
            if got_checks != ex.get("checks", []):
                viols.append(("C16/vcr-checks-differ", f"{got_checks} vs {ex.get('checks')}"))
    if len(interactions) != len(expected):
        viols.append(("C16/vcr-exchange-count", f"{len(interactions)} interactions written, {len(expected)} delivered"))
    return viols, n


def check_har(path, expected, preserve_bytes, sanitize=False):
    viols = []
    try:
        data = json.load(open(path, encoding="utf-8"))
    except Exception as exc:
        return [("C16/har-not-valid-json", f"{type(exc).__name__}: {exc}"[:200])], 0
    entries = data["log"]["entries"]
    if len(entries) != len(expected):
        viols.append(("C16/har-exchange-count", f"{len(entries)} entries written, {len(expected)} delivered"))
        return viols, 0
    n = 0
    for entry, ex in zip(entries, expected):
        n += 1
        req = entry["request"]
        if req["url"] != ex["url"] and not sanitize:
            viols.append(("C16/har-url-differs", f"{req['url']!r} vs {ex['url']!r}"))
        if req["method"] != ex["method"]:
            viols.append(("C16/har-method-differs", f"{req['method']} vs {ex['method']}"))
        got_headers = {h["name"]: h["value"] for h in req["headers"]}
        if got_headers != ex["request_headers"] and not sanitize:
            viols.append(("C16/har-request-headers-differ", f"{got_headers} vs {ex['request_headers']}"[:300]))
        if not sanitize and "Cookie" in ex["request_headers"]:
            # the cookies of the request, as its Cookie header spells them
            want = [tuple(part.strip().split("=", 1)) for part in ex["request_headers"]["Cookie"].split(";")]
            got = [(c.get("name"), c.get("value")) for c in req.get("cookies") or []]
            if got != want:
                viols.append(("C16/har-request-cookies-differ", f"{got} vs Cookie: {ex['request_headers']['Cookie']!r}"))
        if not sanitize and ex["response"] is not None and any(k.lower() == "set-cookie" for k in ex["response"]["headers"]):
            got = [(c.get("name"), c.get("value")) for c in entry["response"].get("cookies") or []]
            if got != [("a", "1")]:
                viols.append(("C16/har-response-cookies-differ", f"{got} vs Set-Cookie: a=1; Path=/"))
        body = ex["request_body"]
        if body is not None:
            text = (req.get("postData") or {}).get("text")
            if preserve_bytes:
                if text is None or base64.b64decode(text) != body:
                    viols.append(("C16/har-request-body-bytes-differ", f"{text!r:.80} vs {body!r:.60}"))
            elif utf8_or_none(body) is not None and text != utf8_or_none(body):
                viols.append(("C16/har-request-body-text-differs", f"{text!r:.80} vs {utf8_or_none(body)!r:.80}"))
        if ex["response"] is not None:
            resp = entry["response"]
            if resp["status"] != ex["response"]["status"]:
                viols.append(("C16/har-status-differs", f"{resp['status']} vs {ex['response']['status']}"))
            # sizes are the numbers of bytes that were received / sent (0 for an empty body, not "unknown")
            if resp.get("bodySize") != len(ex["response"]["content"] or b""):
                viols.append(("C16/har-response-body-size-differs", f"bodySize {resp.get('bodySize')} for a body of {len(ex['response']['content'] or b'')} bytes"))
            if not sanitize:
                got_pairs = sorted((h["name"].lower(), h["value"]) for h in resp.get("headers") or [])
                want_pairs = sorted((k.lower(), v) for k, values in ex["response"]["headers"].items() for v in values)
                if got_pairs != want_pairs:
                    viols.append(("C16/har-response-headers-differ", f"{got_pairs} vs {want_pairs}"[:300]))
                want_type = next((v[0] for k, v in ex["response"]["headers"].items() if k.lower() == "content-type"), "")
                if (resp.get("content") or {}).get("mimeType", "") != want_type:
                    viols.append(("C16/har-response-mime-type-differs", f"{(resp.get('content') or {}).get('mimeType')!r} vs {want_type!r}"))
            content = ex["response"]["content"]
            text = (resp.get("content") or {}).get("text")
            if preserve_bytes:
                if content and (text is None or base64.b64decode(text) != content):
                    viols.append(("C16/har-response-body-bytes-differ", f"{text!r:.80} vs {content!r:.60}"))
            elif content and utf8_or_none(content) is not None and text != utf8_or_none(content):
                viols.append(("C16/har-response-body-text-differs", f"{text!r:.80} vs {utf8_or_none(content)!r:.80}"))
    return viols, n


def check_junit(path, history, factory):
    viols = []
    try:
        root = ET.parse(path).getroot()
    except Exception as exc:
        return [("C16/junit-not-valid-xml", f"{type(exc).__name__}: {exc}"[:200])], 0
    cases = {tc.get("name"): tc for tc in root.iter("testcase")}
    for event in history:
        if type(event).__name__ == "ScenarioFinished":
            label = event.recorder.label
            if label not in cases:
                viols.append(("C16/junit-testcase-missing", f"no testcase for {label}"))
            elif event.status.name == "FAILURE" and cases[label].find("failure") is None:
                viols.append(("C16/junit-failure-missing", f"{label} failed but the testcase has no failure element"))
    return viols, len(cases)


def run_shard(spec, emit):
    tier, seed, shard = spec["tier"], spec["seed"], spec["shard"]
    rng = random.Random(f"{seed}:C16:{shard}")
    factory = Factory()
    n = 250 if tier == "quick" else 4000
    scratch = os.environ.get("VERIF_SCRATCH") or tempfile.mkdtemp(prefix="verif-c16-")
    deadline = time.monotonic() + (75 if tier == "quick" else 300)
    samples = 0
    for idx in range(n):
        if time.monotonic() > deadline:
            break
        history, expected = factory.history(rng)
        shape = "|".join(f"{type(e).__name__[:4]}{getattr(e, 'status', None) and e.status.name[:2]}" for e in history)
        hostile = any(ex["url"] != URLS[0] or (ex["request_body"] or b"") not in (b"", b"plain") for ex in expected)
        # with sanitisation on, URLs and headers are rewritten (not compared here); everything else must still hold
        sanitize = rng.random() < 0.3
        for fmt, preserve in (("vcr", False), ("vcr", True), ("har", False), ("har", True), ("junit", False)):
            path = os.path.join(scratch, f"report-{idx}-{fmt}-{int(preserve)}")
            errors = drive(factory, history, fmt, preserve, path, sanitize and fmt != "junit")
            if sanitize:
                emit.count("sanitized_report_runs")
            context = {"format": fmt, "preserve_bytes": preserve, "sanitize": sanitize, "exchanges": [{k: (v if not isinstance(v, bytes) else v.decode("latin-1")) for k, v in ex.items() if k != "response"} for ex in expected][:4]}
            for err in errors:
                key = "C16/report-handler-raised:" + fmt + ":" + err.split(":")[0]
                emit.viol(key, err, context)
            if fmt == "vcr":
                viols, compared = check_vcr(path, expected, preserve, sanitize)
                emit.count("vcr_files_parsed")
            elif fmt == "har":
                viols, compared = check_har(path, expected, preserve, sanitize)
                emit.count("har_files_parsed")
            else:
                viols, compared = ([], 0) if errors else check_junit(path, history, factory)
                emit.count("junit_files_parsed")
            emit.count("interactions_compared", compared)
            sample = None
            if hostile and samples < 2 and fmt == "vcr":
                samples += 1
                sample = {"format": fmt, "preserve_bytes": preserve, "exchanges": context["exchanges"][:2]}
            emit.case(sig=f"{fmt}|{preserve}|{shape}|{hash(repr(context['exchanges']))}" if hostile else None, sample=sample)
            for key, what in viols:
                emit.viol(key, what, context)
            try:
                os.remove(path)
            except OSError:
                pass


    # (b) real runs with reports switched on
    if shard % 4 == 0 or tier == "thorough":
        cli_part(rng, emit, scratch, tier, shard)


def cli_part(rng, emit, scratch, tier, shard=0):
    import yaml

    from vmon.gen import docs
    from vmon.instr import engine

    runs = 1 if tier == "quick" else 4
    for i in range(runs):
        report_dir = os.path.join(scratch, f"cli-reports-{i}")
        os.makedirs(report_dir, exist_ok=True)
        preserve = ((shard // 4) + i) % 2 == 0  # both settings are exercised in every run of the check
        rules = docs.LINK_RULES + [
            {"when": {"method": "GET", "path_regex": "^/users/", "nth": 2}, "then": {"status": 500, "body": "it's 'bad': \"x\"\n# y", "content_type": "text/plain"}},
            {"when": {"method": "GET", "path_regex": "^/users/", "nth": 4}, "then": {"close": True}},
        ]
        args = ["--report", "vcr,har,junit", "--report-dir", report_dir, "--max-examples", "4", "--seed", str(rng.randrange(1000)), "--generation-database", "none", "--mode", "all", "--output-sanitize", "false"]
        if preserve:
            args.append("--report-preserve-bytes")
        result = engine.run_cli(docs.doc_two_linked(), args, rules=rules, report_dir=report_dir, timeout=150)
        if result.hung:
            emit.inconclusive("watchdog fired in CLI report run")
            continue
        emit.count("cli_report_runs")
        delivered = sum(len(e["recorder"]["interactions"]) for e in result.events if e["type"] == "ScenarioFinished")
        context = {"args": args, "exit_code": result.exit_code, "files": sorted(result.files)}
        emit.case(sig=f"cli|{preserve}|{delivered}")
        if result.harness_error or "Traceback" in result.stdout or "Internal Error" in result.stdout:
            emit.viol("C16/cli-run-with-reports-crashed", (result.harness_error or result.stdout[-300:])[:300], context)
        for name, data in result.files.items():
            try:
                if name.endswith((".yaml", ".yml")):
                    parsed = yaml.safe_load(data.decode("utf-8"))
                    count = len(parsed.get("http_interactions") or [])
                    emit.count("vcr_files_parsed")
                    if count != delivered:
                        emit.viol("C16/vcr-exchange-count:cli", f"{count} interactions in the cassette, {delivered} delivered to the reporters", context)
                    # the option that asks for byte-exact bodies is honoured: bodies are base64 of bytes the API really sent
                    sent_bodies = {r.get("response_body", "").encode("latin-1") for r in result.server_log}
                    for item in parsed.get("http_interactions") or []:
                        body = (item.get("response") or {}).get("body")
                        if body is None:
                            continue
                        emit.count("cli_vcr_bodies_checked")
                        if preserve:
                            if "base64_string" not in body:
                                emit.viol("C16/preserve-bytes-not-honoured:vcr", f"response body written as {sorted(body)}", context)
                            elif base64.b64decode(body["base64_string"]) not in sent_bodies:
                                emit.viol("C16/vcr-response-body-bytes-differ:cli", f"{body['base64_string'][:60]!r} is none of the bodies the API sent", context)
                        elif "string" not in body:
                            emit.viol("C16/vcr-body-shape-without-preserve-bytes", f"response body written as {sorted(body)}", context)
                elif name.endswith(".json") or name.endswith(".har"):
                    parsed = json.loads(data.decode("utf-8"))
                    count = len(parsed["log"]["entries"])
                    emit.count("har_files_parsed")
                    if count != delivered:
                        emit.viol("C16/har-exchange-count:cli", f"{count} entries in the HAR file, {delivered} delivered to the reporters", context)
                    for entry in parsed["log"]["entries"]:
                        content = (entry.get("response") or {}).get("content") or {}
                        if entry["response"].get("status") and content.get("text") is not None:
                            if preserve and content.get("encoding") != "base64":
                                emit.viol("C16/preserve-bytes-not-honoured:har", f"content encoding {content.get('encoding')!r}", context)
                            if not preserve and content.get("encoding") == "base64":
                                emit.viol("C16/har-body-shape-without-preserve-bytes", "content encoding base64", context)
                elif name.endswith(".xml"):
                    ET.fromstring(data)
                    emit.count("junit_files_parsed")
            except Exception as exc:
                emit.viol(f"C16/cli-report-not-parsable:{name.rsplit('.', 1)[-1]}", f"{type(exc).__name__}: {exc}"[:200], context)
        if not result.files:
            emit.viol("C16/cli-reports-missing", "no report files were written", context)


def replay(case):
    return []

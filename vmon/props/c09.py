"""C09 — the printed reproduction command re-sends the same request.

Monitor: request A as received by the recording API when a case is sent through the real transport; the string
`case.as_curl_command(headers=dict(response.request.headers), verify=...)` (exactly what the failure report prints);
request B as received when `sh -c "<command>"` runs with the real /usr/bin/curl. Oracle: A and B agree on method, raw
URL path+query, body bytes and headers (except the ones curl / requests add on their own).
"""

from __future__ import annotations

import dataclasses
import random
import re
import subprocess
import time

from vmon.api.server import RecordingServer, Script

ID = "C09"
LEVEL = "exploration"
RULE = (
    "cases: methods GET/POST/PUT/PATCH/DELETE/OPTIONS x path/query values with reserved and non-ASCII characters x header and "
    "cookie values from an ASCII alphabet rich in quotes, backslashes, $, backticks, ; & | < > ( ), spaces, tabs and empty values x "
    "bodies JSON / text / form / multipart containing quotes, newlines, leading '@', $VAR, backticks, leading dashes; sanitisation "
    "off; executed with a POSIX sh and the real curl. Non-trivial = a case with at least one shell-special character; distinct = "
    "distinct (method, body kind, special characters present) signatures"
)
ASSUMPTIONS = [
    "domain as in the statement: ASCII header values, text payloads",
    "headers that curl / requests add themselves (Host, User-Agent, Accept, Accept-Encoding, Connection, Content-Length, Transfer-Encoding, Expect: message framing, not content) and the test-case id are ignored",
]
MIN_EVALUATIONS = {"quick": 300, "thorough": 6000}
MIN_NONTRIVIAL = {"quick": 200, "thorough": 3000}
REACH_FLOORS = {"curl_executions": 300}
SHARD_TIMEOUT = {"quick": 900, "thorough": 5400}

DEFAULT_NAMED = {"accept", "user-agent", "accept-encoding"}
IGNORED = {"host", "user-agent", "accept", "accept-encoding", "connection", "content-length", "transfer-encoding", "expect", "x-schemathesis-testcaseid"}
SPECIAL = "'\"\\$`;&|<>()! *?[]#~%{}"
WORDS = ["a", "it's", 'say "hi"', "$HOME", "`id`", "a;b", "x&y", "p|q", "<tag>", "(x)", "back\\slash", "tab\there", "sp ace", "", "-d", "--data", "@file", "#frag", "100%", "né", "a=b", "*", "~", "$(id)", "\\n", "!!", "{}", "[1]"]


def rand_value(rng, ascii_only=True, allow_empty=True):
    kind = rng.random()
    if kind < 0.6:
        words = [w for w in WORDS if (not ascii_only or w.isascii()) and (allow_empty or w)]
        return rng.choice(words)
    n = rng.randint(0 if allow_empty else 1, 8)
    alphabet = SPECIAL + "abcXYZ019" + (" " if True else "")
    return "".join(rng.choice(alphabet) for _ in range(n))


def document():
    ok = {"200": {"description": "ok"}}
    params = [
        {"name": "p", "in": "path", "required": True, "schema": {"type": "string"}},
        {"name": "q", "in": "query", "schema": {"type": "string"}},
        {"name": "r", "in": "query", "schema": {"type": "array", "items": {"type": "string"}}},
        {"name": "X-A", "in": "header", "schema": {"type": "string"}},
        {"name": "X-B", "in": "header", "schema": {"type": "string"}},
        {"name": "c", "in": "cookie", "schema": {"type": "string"}},
    ]
    body = {
        "content": {
            "application/json": {"schema": {}},
            "text/plain": {"schema": {"type": "string"}},
            "application/x-www-form-urlencoded": {"schema": {"type": "object"}},
            "multipart/form-data": {"schema": {"type": "object", "properties": {"f": {"type": "string"}, "g": {"type": "string"}}}},
        }
    }
    item = {}
    for method in ("get", "post", "put", "patch", "delete", "options"):
        item[method] = {"parameters": params, "responses": ok}
        if method in ("post", "put", "patch", "delete"):
            item[method]["requestBody"] = body
    return {"openapi": "3.0.2", "info": {"title": "t", "version": "1"}, "paths": {"/x/{p}": item}}


def plan(tier, seed):
    nshards = 16 if tier == "quick" else 32
    return [{"tier": tier, "seed": seed, "shard": i, "nshards": nshards} for i in range(nshards)]


def comparable_headers(record, defined=()):
    """`defined`: lower-case names the test case itself sets; those are content even when they are named like a header
    that curl / requests would otherwise add on their own (Accept, User-Agent, Accept-Encoding)."""
    return sorted((k.lower(), v) for k, v in record["headers"] if k.lower() not in IGNORED or k.lower() in defined)


def multipart_view(record):
    """None for a non-multipart request, else {"parts": [(part headers, content)]} read with the announced boundary."""
    content_type = next((v for k, v in record["headers"] if k.lower() == "content-type"), "")
    if not content_type.lower().startswith("multipart/"):
        return None
    match = re.search(r'boundary="?([^";]+)"?', content_type)
    if not match:
        return {"error": "no boundary parameter"}
    delimiter = "--" + match.group(1)
    sections = record["body"].split(delimiter)
    if len(sections) < 2 or not sections[-1].lstrip("\r\n").startswith("--"):
        return {"error": f"body does not use the announced boundary {match.group(1)[:12]}..."}
    parts = []
    for section in sections[1:-1]:
        head, _, content = section.partition("\r\n\r\n")
        parts.append((sorted(line.strip().lower() for line in head.strip().splitlines()), content[:-2] if content.endswith("\r\n") else content))
    return {"parts": parts}


def classify(case_desc, a, b, field):
    headers = case_desc["headers"]
    body = case_desc.get("body")
    if field == "headers":
        defined = {k.lower() for k in headers} | {k.lower() for k in case_desc.get("call_headers", {})}
        ha, hb = dict(comparable_headers(a, defined)), dict(comparable_headers(b, defined))
        if any(ha.get(k.lower()) != hb.get(k.lower()) for k in case_desc.get("call_headers", {})):
            return "C09/call-header-named-like-a-default-one-not-reproduced"
        if any(k in DEFAULT_NAMED for k in defined) and any(ha.get(k) != hb.get(k) for k in defined if k in DEFAULT_NAMED):
            return "C09/case-header-named-like-a-default-one-not-reproduced"
        missing = [k for k in ha if k not in hb]
        if missing and all(ha[k] == "" for k in missing) and all(ha.get(k) == hb.get(k) for k in hb):
            return "C09/empty-header-value-dropped-by-curl"
        return "C09/headers-differ"
    if field == "body":
        if isinstance(body, str) and body.startswith("@"):
            return "C09/body-with-leading-at-read-from-file"
        if a["body"].startswith("--") and b["body"].startswith("--") and "Content-Disposition: form-data" in a["body"]:
            # same parts, another boundary than the one announced in the Content-Type header of the command
            import re

            strip = lambda text: re.sub(r"--[0-9a-f]{32}", "--B", text)
            if strip(a["body"]) == strip(b["body"]):
                return "C09/multipart-boundary-regenerated"
        return "C09/body-differs"
    return f"C09/{field}-differs"


def run_shard(spec, emit):
    import requests

    import schemathesis
    from schemathesis.core import NOT_SET

    tier, seed, shard = spec["tier"], spec["seed"], spec["shard"]
    rng = random.Random(f"{seed}:C09:{shard}")
    if shard % 4 == 1 or tier == "thorough":
        for _ in range(1 if tier == "quick" else 3):
            cli_part(rng, emit, tier, seed + shard)
    n_cases = 150 if tier == "quick" else 1500
    deadline = time.monotonic() + (80 if tier == "quick" else 300)
    samples = 0
    with RecordingServer(Script()) as server:
        schema = schemathesis.openapi.from_dict(document())
        schema.base_url = server.url
        try:
            schema.output_config = dataclasses.replace(schema.output_config, sanitize=False)
        except Exception:
            schema.output_config.sanitize = False
        session = requests.Session()
        for idx in range(n_cases):
            if time.monotonic() > deadline:
                break
            method = rng.choice(["GET", "POST", "PUT", "PATCH", "DELETE", "OPTIONS"])
            operation = schema["/x/{p}"][method]
            desc = {"method": method, "path": rand_value(rng, ascii_only=False, allow_empty=False) or "x", "headers": {}, "query": {}, "cookies": {}}
            if rng.random() < 0.8:
                desc["query"]["q"] = rand_value(rng, ascii_only=False)
            if rng.random() < 0.3:
                desc["query"]["r"] = [rand_value(rng), rand_value(rng)]
            for name in ("X-A", "X-B"):
                if rng.random() < 0.7:
                    desc["headers"][name] = rand_value(rng).strip(" \t") if rng.random() < 0.8 else ""
            if rng.random() < 0.3:
                # a header the case defines itself although requests has a default of that name
                desc["headers"][rng.choice(["Accept", "User-Agent", "Accept-Encoding"])] = rng.choice(["", "", "text/x-" + (rand_value(rng).strip(" \t") or "v"), "identity"])
                emit.count("cases_defining_default_named_header")
            if rng.random() < 0.5:
                desc["cookies"]["c"] = rand_value(rng, allow_empty=False).replace(";", "").replace(" ", "").replace('"', "").replace("\\", "").replace("\t", "") or "v"
            kwargs = {}
            body_kind = None
            if method in ("POST", "PUT", "PATCH", "DELETE") and rng.random() < 0.85:
                body_kind = rng.choice(["json", "text", "form", "multipart"])
                if body_kind == "json":
                    kwargs["body"] = rng.choice([{"k": rand_value(rng, ascii_only=False), "n": [1, rand_value(rng)], "q'": 'v"'}] * 3 + [{}, [], "", 0, None, False])
                    kwargs["media_type"] = "application/json"
                elif body_kind == "text":
                    kwargs["body"] = rng.choice([rand_value(rng, allow_empty=False), "line1\nline2 'q'", "@/etc/hostname", "$HOME `id`", "--data-binary", "a=b&c=d", "tr\\ail", "na\u00efve caf\u00e9 \u2615", "\u65e5\u672c\u8a9e\nline2"]) or "t"
                    kwargs["media_type"] = "text/plain"
                elif body_kind == "form":
                    # a form without fields serialises to no payload at all but still announces its content type
                    kwargs["body"] = rng.choice([{"a": rand_value(rng), "b c": "it's & more"}, {}, {"e": []}, {"a": ""}])
                    kwargs["media_type"] = "application/x-www-form-urlencoded"
                else:
                    kwargs["body"] = {"f": rand_value(rng), "g": rng.choice(["two\nlines", "gr\u00fc\u00dfe", "\u2603 snow"])}
                    kwargs["media_type"] = "multipart/form-data"
                desc["body"] = kwargs["body"]
            case = operation.Case(
                path_parameters={"p": desc["path"]},
                query=desc["query"] or None,
                headers=desc["headers"] or None,
                cookies=desc["cookies"] or None,
                **kwargs,
            )
            overrides = None
            if rng.random() < 0.25 and not any(k.lower() in DEFAULT_NAMED for k in desc["headers"]):
                # what `-H` does: a header given to the call, not part of the case, named like a default one
                overrides = {rng.choice(["Accept", "User-Agent"]): rng.choice(["application/x-vmon", "vmon-agent/1.0"])}
                desc["call_headers"] = overrides
                emit.count("cases_with_default_named_call_header")
            before = len(server.log)
            try:
                response = case.call(session=session, headers=overrides)
            except Exception as exc:
                emit.count("cases_not_sendable")
                continue
            log = server.snapshot()
            if len(log) <= before:
                emit.count("cases_not_received")
                continue
            a = log[-1]
            try:
                command = case.as_curl_command(headers=dict(response.request.headers), verify=True)
            except Exception as exc:
                emit.viol("C09/command-generation-crashed", f"{type(exc).__name__}: {exc}"[:200], {"case": desc})
                continue
            before = len(server.log)
            try:
                proc = subprocess.run(["sh", "-c", command + " -s -o /dev/null --max-time 10"], capture_output=True, timeout=30, cwd="/")
            except subprocess.TimeoutExpired:
                emit.inconclusive("curl timed out")
                continue
            emit.count("curl_executions")
            log = server.snapshot()
            special = sorted({ch for ch in command if ch in SPECIAL})
            nontrivial = bool(set(special) - set("'%"))
            sig = f"{method}|{body_kind}|{''.join(special)}"
            sample = None
            if nontrivial and samples < 2:
                samples += 1
                sample = {"case": desc, "command": command}
            emit.case(sig=sig if nontrivial else None, sample=sample)
            context = {"case": desc, "command": command, "curl_exit": proc.returncode, "curl_stderr": proc.stderr.decode("latin-1")[:200]}
            if len(log) <= before:
                emit.viol("C09/command-sent-no-request" + (":curl-exit-%d" % proc.returncode), f"curl exit {proc.returncode}: {proc.stderr.decode('latin-1')[:150]}", context)
                continue
            b = log[-1]
            if proc.returncode != 0:
                emit.viol(f"C09/curl-exit-{proc.returncode}", proc.stderr.decode("latin-1")[:150], context)
            if a["method"] != b["method"]:
                emit.viol("C09/method-differs", f"{a['method']} vs {b['method']}", context)
            if a["raw_path"] != b["raw_path"]:
                emit.viol("C09/url-differs", f"{a['raw_path'][:100]} vs {b['raw_path'][:100]}", context)
            # a multipart message is the same message under another boundary token as long as each request announces the
            # boundary its own body uses: both sides are read with their announced boundary and compared part by part
            ma, mb = multipart_view(a), multipart_view(b)
            if ma is not None or mb is not None:
                emit.count("multipart_pairs")
                if ma is None or mb is None or "error" in ma or "error" in mb:
                    emit.viol("C09/multipart-not-readable-with-announced-boundary", f"original: {str(ma)[:120]} | reproduced: {str(mb)[:120]}", context)
                elif ma["parts"] != mb["parts"]:
                    emit.viol("C09/multipart-parts-differ", f"{ma['parts']!r:.150} vs {mb['parts']!r:.150}", context)
                a = dict(a, body="", headers=[(k, re.sub(r"boundary=[^;]+", "boundary=B", v) if k.lower() == "content-type" else v) for k, v in a["headers"]])
                b = dict(b, body="", headers=[(k, re.sub(r"boundary=[^;]+", "boundary=B", v) if k.lower() == "content-type" else v) for k, v in b["headers"]])
            if a["body"] != b["body"]:
                emit.viol(classify(desc, a, b, "body"), f"{a['body'][:100]!r} vs {b['body'][:100]!r}", context)
            defined = {k.lower() for k in desc["headers"]} | {k.lower() for k in desc.get("call_headers", {})}
            if comparable_headers(a, defined) != comparable_headers(b, defined):
                emit.viol(classify(desc, a, b, "headers"), f"{comparable_headers(a, defined)} vs {comparable_headers(b, defined)}"[:400], context)


def printed_commands(stdout):
    """The curl commands as the report shows them: from a line that starts the command to the point where the shell
    quoting is balanced again (a quoted body may span several lines). Only the indentation of the command's first
    line belongs to the report's layout."""
    import shlex

    lines = stdout.split("\n")  # (a multipart body has CRLF line ends: the carriage returns are part of the command)
    out = []
    i = 0
    while i < len(lines):
        if lines[i].lstrip().startswith("curl -X ") and lines[i].startswith("    "):
            command = lines[i][4:]
            j = i
            while True:
                try:
                    shlex.split(command)
                    break
                except ValueError:
                    j += 1
                    if j >= len(lines) or j - i > 60:
                        break
                    command += "\n" + lines[j]
            out.append(command)
            i = j
        i += 1
    return out


def cli_part(rng, emit, tier, seed):
    """The commands a real `st run` PRINTS for failures (all phases, user headers) are executed and compared with the
    failing requests the API received during the run."""
    import copy

    from vmon.gen import docs
    from vmon.instr import engine

    ok = {"200": {"description": "ok", "content": {"application/json": {"schema": {"type": "object"}}}}}
    doc = docs.doc_two_linked()
    doc["paths"]["/notes"] = {
        "post": {
            "operationId": "postNote",
            "requestBody": {"required": True, "content": {"text/plain": {"schema": {"type": "string", "enum": ["line1\nline2 'q'", "one\n\nthree $HOME", "tail\n"]}}}},
            "responses": copy.deepcopy(ok),
        }
    }
    doc["paths"]["/upload"] = {
        "post": {
            "operationId": "upload",
            "requestBody": {"required": True, "content": {"multipart/form-data": {"schema": {"type": "object", "properties": {"f": {"type": "string", "enum": ["a b", "it's"]}, "g": {"type": "integer", "minimum": 0, "maximum": 9}}, "required": ["f", "g"], "additionalProperties": False}}}},
            "responses": copy.deepcopy(ok),
        }
    }
    extra = rng.choice(["plain", "it's $x", 'say "hi" \\ back', "a;b|c&d"])
    rules = docs.LINK_RULES + [
        {"when": {"method": "GET", "path_regex": "^/users/"}, "then": {"status": 500, "json": {"error": "boom"}}},
        {"when": {"method": "POST", "path_regex": "^/notes"}, "then": {"status": 500, "json": {"error": "boom"}}},
        {"when": {"method": "POST", "path_regex": "^/upload"}, "then": {"status": 500, "json": {"error": "boom"}}},
    ]
    # (failures first found in the stateful phase have their own code path: every run of the check has such runs)
    phases = ["examples,coverage,fuzzing,stateful", "stateful", "coverage", "stateful", "fuzzing,stateful"][(seed // 4 + rng.randrange(100) * 0) % 5 if tier == "quick" else rng.randrange(5)]
    user_named = rng.choice([("Accept", "application/x-vmon"), ("User-Agent", "vmon-agent/1.0")])
    cli_defined = {user_named[0].lower()}
    args = ["--header", f"{user_named[0]}: {user_named[1]}", "--header", f"X-Extra: {extra}", "--header", "X-Second: 2", "--phases", phases, "--max-examples", "5", "--seed", str(seed + 3), "--generation-database", "none", "--checks", "not_a_server_error", "--output-sanitize", "false", "--mode", "positive"]
    result = engine.run_cli(doc, args, rules=rules, timeout=150)
    if result.hung:
        emit.inconclusive("watchdog fired in CLI reproduction run")
        return
    emit.count("cli_runs")
    commands = printed_commands(result.stdout)
    failing = [r for r in result.test_requests() if r.get("status") == 500]
    if not failing:
        return
    if not commands:
        emit.viol("C09/no-reproduction-command-printed", f"{len(failing)} failing requests, no curl command in the report", {"args": args})
        return
    with RecordingServer(Script()) as server:
        for command in commands[:12]:
            # the command targets the server of the run, which is gone: same command, this server's address
            target = re.sub(r"http://127\.0\.0\.1:\d+", server.url, command)
            before = len(server.log)
            try:
                proc = subprocess.run(["sh", "-c", target + " -s -o /dev/null --max-time 10"], capture_output=True, timeout=30, cwd="/")
            except subprocess.TimeoutExpired:
                emit.count("curl_timeouts")
                continue
            emit.count("printed_commands_executed")
            context = {"command": command, "phases": phases, "curl_stderr": proc.stderr.decode("latin-1")[:200]}
            log = server.snapshot()
            if len(log) <= before:
                emit.viol("C09/printed-command-sent-no-request", f"curl exit {proc.returncode}: {proc.stderr.decode('latin-1')[:120]}", context)
                continue
            b = log[-1]
            emit.case(sig=f"printed|{b['method']}|{b['raw_path']}|{b['body'][:40]}")

            def same(a):
                if a["method"] != b["method"] or a["raw_path"] != b["raw_path"]:
                    return False
                ma, mb = multipart_view(a), multipart_view(b)
                if ma is not None or mb is not None:
                    if ma is None or mb is None or "error" in ma or "error" in mb or ma["parts"] != mb["parts"]:
                        return False
                    strip = lambda rec: [(k, re.sub(r"boundary=[^;]+", "boundary=B", v) if k == "content-type" else v) for k, v in comparable_headers(rec, cli_defined)]
                    return strip(a) == strip(b)
                return a["body"] == b["body"] and comparable_headers(a, cli_defined) == comparable_headers(b, cli_defined)

            if not any(same(a) for a in failing):
                candidates = [a for a in failing if a["method"] == b["method"] and a["raw_path"] == b["raw_path"]]
                detail = f"reproduced headers {comparable_headers(b, cli_defined)} body {b['body'][:80]!r}; " + (f"closest original: headers {comparable_headers(candidates[0], cli_defined)} body {candidates[0]['body'][:80]!r}" if candidates else "no failing original with this method and URL")
                emit.viol("C09/printed-command-differs-from-every-failing-request", detail[:500], context)


def replay(case):
    return []

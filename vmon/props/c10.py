"""C10 — stateful links pass exactly the data their expressions denote.

Part 1: the real `expressions.evaluate` / `OpenApiLink` construction on generated runtime expressions (from the OAS
ABNF, JSON-pointer edge cases, embedded templates, regex extractors) and on malformed neighbours, against the
reference evaluator vmon.oracles.rtexpr. Part 2: live stateful phases against a scripted API; every request
derived through a link is paired (recorder parent ids + test-case id header) with its actual source exchange in
the API's log and compared, on the wire, with what the link's expressions denote.
"""

from __future__ import annotations

import copy
import json
import random
import re
import sys
import time
from urllib.parse import parse_qsl, unquote

from vmon.gen import docs
from vmon.oracles import rtexpr

ID = "C10"
LEVEL = "exploration"
RULE = (
    "Part 1: expressions = all variables x header/query/path names (mixed case) x pointers (~0 ~1, array indices incl. '-', "
    "'-1', '+1', '01', ' 1', '1_0', empty tokens, deep paths) x embedded templates with 1-3 holes x regex extractors, plus "
    "malformed neighbours (token deletions, unbalanced braces, unknown variables, missing dots, unknown sources), over random "
    "JSON bodies / header maps / statuses. Part 2: API with links on exact codes, 2XX and default, operationId and operationRef "
    "targets, explicit in.name and implicit locations, literal/expression/nested request bodies; the API returns seeded-random "
    "ids, names, headers and a scripted status per request. Non-trivial = expression with a pointer/extractor/template or a "
    "derived request; distinct = distinct (expression shape, outcome class) / (link, status, values)"
)
ASSUMPTIONS = [
    "how non-string values are rendered inside an embedded template, and '$' inside constants, are not judged",
    "the product's documented choice for '}' inside an embedded pointer (first '}' closes the hole) is taken as given",
    "$url is compared with the URL that reached the API",
]
MIN_EVALUATIONS = {"quick": 12000, "thorough": 400000}
MIN_NONTRIVIAL = {"quick": 1500, "thorough": 8000}
REACH_FLOORS = {"wellformed_compared": 10000, "malformed_checked": 1500, "derived_requests_checked": 100, "links_followed:exact": 10, "links_followed:wildcard": 10, "links_followed:default": 5}
SHARD_TIMEOUT = {"quick": 900, "thorough": 5400}


# ------------------------------------------------------------------------------------------ Part 1
def rand_json(rng, depth=0):
    kind = rng.choice(["int", "str", "bool", "null", "list", "dict", "dict"] if depth < 3 else ["int", "str"])
    if kind == "int":
        return rng.choice([0, 1, -7, 42, 10**6])
    if kind == "str":
        return rng.choice(["", "abc", "a/b", "x~y", "id-7", "tok_99z", "Ünï"])
    if kind == "bool":
        return rng.random() < 0.5
    if kind == "null":
        return None
    if kind == "list":
        return [rand_json(rng, depth + 1) for _ in range(rng.randint(0, 3))]
    keys = rng.sample(["id", "name", "a/b", "m~n", "", "items", "0", "1", "k}", "deep", "-", "~1", "x~1y", "~0", "/", "~"], rng.randint(1, 5))
    return {k: rand_json(rng, depth + 1) for k in keys}


def rand_pointer(rng, doc):
    """A pointer that mostly follows the document, with hostile final tokens."""
    tokens = []
    node = doc
    for _ in range(rng.randint(0, 4)):
        if isinstance(node, dict) and node:
            key = rng.choice(list(node))
            tokens.append(key.replace("~", "~0").replace("/", "~1"))
            node = node[key]
        elif isinstance(node, list):
            choice = rng.choice(["ok", "ok", "hostile"])
            if choice == "ok" and node:
                idx = rng.randrange(len(node))
                tokens.append(str(idx))
                node = node[idx]
            else:
                tokens.append(rng.choice(["-", "-1", "+1", "01", " 1", "1_0", "٠", "99", "", "1.0"]))
                break
        else:
            if rng.random() < 0.3:
                tokens.append(rng.choice(["x", "0", ""]))
            break
    if rng.random() < 0.1:
        tokens.append(rng.choice(["missing", "~2", "~"]))
    return "".join("/" + t for t in tokens)


QUERY = {"page": 3, "q": "find me", "Ver": "v2-beta"}
PATHP = {"id": 17, "slug": "abc-def"}
HEADERS = {"X-Token": "tok-123-xyz", "x-lower": "low", "Accept-Language": "en-GB"}
RESP_HEADERS = {"Location": ["/users/99/orders/7"], "X-Rate-Limit": ["100", "200"], "ETag": ['W/"abc"']}


def gen_single(rng, body, resp_body):
    kind = rng.choice(["url", "method", "status", "rq", "rp", "rh", "rb", "sb", "sh", "rx", "rx2"])
    if kind == "url":
        return "$url"
    if kind == "method":
        return "$method"
    if kind == "status":
        return "$statusCode"
    if kind == "rq":
        return "$request.query." + rng.choice(list(QUERY) + ["absent", "ver"])
    if kind == "rp":
        return "$request.path." + rng.choice(list(PATHP) + ["absent"])
    if kind == "rh":
        return "$request.header." + rng.choice(["X-Token", "x-token", "X-LOWER", "Accept-Language", "Absent"])
    if kind == "rb":
        return "$request.body" + (("#" + rand_pointer(rng, body)) if rng.random() < 0.85 else "")
    if kind == "sb":
        return "$response.body" + (("#" + rand_pointer(rng, resp_body)) if rng.random() < 0.85 else "")
    if kind == "sh":
        return "$response.header." + rng.choice(["Location", "location", "X-Rate-Limit", "ETag", "Missing"])
    if kind == "rx":
        return "$response.header.Location#regex:" + rng.choice([r"/users/(\d+)", r"orders/(\d+)", r"/nothing/(\d+)", r"^/(\w+)/"])
    return "$request.header.X-Token#regex:" + rng.choice([r"tok-(\d+)", r"-(xyz)$", r"(q+)"])


def gen_expression(rng, body, resp_body):
    r = rng.random()
    if r < 0.55:
        return gen_single(rng, body, resp_body), "single"
    if r < 0.6:
        return rng.choice(["constant", "", "plain text", "42"]), "constant"
    holes = rng.randint(1, 3)
    text = rng.choice(["", "ID_", "pre-"])
    for i in range(holes):
        text += "{" + gen_single(rng, body, resp_body) + "}" + rng.choice(["", "_", "-mid-", "/"])
    return text, f"template{holes}"


def malform(rng, expr):
    choice = rng.choice(["unknown_var", "missing_dot", "unknown_source", "unbalanced_open", "unbalanced_close", "nested", "truncate", "no_name", "body_dot", "bad_regex", "regex_groups"])
    if choice == "unknown_var":
        return rng.choice(["$foo", "$requests.query.id", "$Url", "{$nope}", "$statuscode"])
    if choice == "missing_dot":
        return rng.choice(["$request", "$response", "$requestquery.id", "$request#/a"])
    if choice == "unknown_source":
        return rng.choice(["$request.cookie.sid", "$response.query.id", "$response.path.id", "$request.headers.X", "$response.status"])
    if choice == "unbalanced_open":
        return "pre{" + rng.choice(["$request.query.page", "$response.body#/id"])
    if choice == "unbalanced_close":
        return rng.choice(["$request.query.page}", "a}b", "{$method}}"])
    if choice == "nested":
        return "{{$method}}"
    if choice == "truncate":
        return rng.choice(["$request.", "$response.", "$request.query", "$request.header", "$response.header"])
    if choice == "no_name":
        return rng.choice(["$request.query.", "$request.path.", "$response.header."])
    if choice == "body_dot":
        return rng.choice(["$request.body.id", "$response.body.id", "$response.bodyx"])
    if choice == "bad_regex":
        return "$response.header.Location#regex:(\\d+"
    return rng.choice(["$response.header.Location#regex:\\d+", "$response.header.Location#regex:(a)(b)"])


def rejected_key(expr):
    if re.search(r"\{\$(request|response)\.body\}", expr):
        return "C10/wellformed-expression-rejected:embedded-whole-body-expression"
    return "C10/wellformed-expression-rejected"


class Part1:
    def __init__(self):
        import requests
        import schemathesis
        from schemathesis.core.transforms import UNRESOLVABLE
        from schemathesis.core.transport import Response
        from schemathesis.generation.stateful.state_machine import StepOutput
        from schemathesis.specs.openapi import expressions

        self.UNRESOLVABLE = UNRESOLVABLE
        self.StepOutput = StepOutput
        self.Response = Response
        self.evaluate = expressions.evaluate
        self.parser = expressions.parser
        doc = docs.base(
            {
                "/things/{id}/{slug}": {
                    "post": {
                        "operationId": "postThing",
                        "parameters": [
                            docs.int_param("id", "path"),
                            {"name": "slug", "in": "path", "required": True, "schema": {"type": "string"}},
                            docs.int_param("page", "query"),
                            {"name": "q", "in": "query", "schema": {"type": "string"}},
                            {"name": "Ver", "in": "query", "schema": {"type": "string"}},
                            {"name": "X-Token", "in": "header", "schema": {"type": "string"}},
                            {"name": "x-lower", "in": "header", "schema": {"type": "string"}},
                            {"name": "Accept-Language", "in": "header", "schema": {"type": "string"}},
                        ],
                        "requestBody": {"content": {"application/json": {"schema": {}}}},
                        "responses": {"200": {"description": "ok"}},
                    }
                }
            }
        )
        self.schema = schemathesis.openapi.from_dict(doc)
        self.schema.base_url = "http://127.0.0.1:1"
        self.operation = self.schema["/things/{id}/{slug}"]["POST"]
        self.requests = requests

    def build(self, body, resp_body, status, body_absent, resp_malformed):
        from schemathesis.core import NOT_SET

        case = self.operation.Case(
            path_parameters=dict(PATHP), query=dict(QUERY), headers=dict(HEADERS), body=NOT_SET if body_absent else body, media_type="application/json"
        )
        prepared = self.requests.Request("POST", "http://127.0.0.1:1/things/17/abc-def").prepare()
        content = b"{not json" if resp_malformed else json.dumps(resp_body).encode()
        response = self.Response(status_code=status, headers={k: list(v) for k, v in RESP_HEADERS.items()}, content=content, request=prepared, elapsed=0.0, verify=False)
        return self.StepOutput(response=response, case=case)

    def exchange(self, body, resp_body, status, body_absent, resp_malformed):
        return {
            "method": "POST",
            "url": "http://127.0.0.1:1/things/17/abc-def?page=3&q=find+me&Ver=v2-beta",
            "query": dict(QUERY),
            "path": dict(PATHP),
            "headers": dict(HEADERS),
            "body": rtexpr.ABSENT if body_absent else body,
            "status": status,
            "response_headers": RESP_HEADERS,
            "response_body": rtexpr.ABSENT if resp_malformed else resp_body,
        }


def part1_case(p1, rng, emit):
    body, resp_body = rand_json(rng), rand_json(rng)
    status = rng.choice([200, 201, 404, 500])
    body_absent = rng.random() < 0.05
    resp_malformed = rng.random() < 0.03
    output = p1.build(body, resp_body, status, body_absent, resp_malformed)
    exchange = p1.exchange(body, resp_body, status, body_absent, resp_malformed)
    if rng.random() < 0.8:
        expr, shape = gen_expression(rng, body, resp_body)
        try:
            expected = rtexpr.evaluate(expr, exchange)
        except rtexpr.Malformed:
            expected = "MALFORMED"
        try:
            got = p1.evaluate(expr, output)
            got_kind = "NOVALUE" if got is p1.UNRESOLVABLE else "value"
        except Exception as exc:
            got, got_kind = f"{type(exc).__name__}: {exc}"[:150], "raised"
        case = {"expr": expr, "request_body": None if body_absent else body, "response_body": "<malformed>" if resp_malformed else resp_body, "status": status}
        nontrivial = "#" in expr or "{" in expr
        outcome = "abstain"
        viols = []
        if expected is rtexpr.ABSTAIN:
            emit.count("abstained")
        elif expected == "MALFORMED":
            emit.count("malformed_checked")
            outcome = "malformed"
            if got_kind != "raised":
                viols.append(("C10/malformed-expression-evaluated", f"`{expr}` evaluated to {got!r} instead of being rejected"))
        elif resp_malformed and "$response.body" in expr:
            emit.count("abstained")  # the reference has no notion of an unparsable body; a raise is as good as no value
        elif body_absent and "$request.body" in expr:
            emit.count("abstained")
        else:
            emit.count("wellformed_compared")
            if expected is rtexpr.NOVALUE:
                outcome = "novalue"
                if got_kind == "value":
                    key = "C10/unresolvable-expression-produced-a-value"
                    if re.search(r"#.*/(-1|\+1|01| 1|1_0|٠)(/|$|})", expr):
                        key += ":nonstandard-array-index"
                    viols.append((key, f"`{expr}` -> {got!r}, reference: no value"))
                elif got_kind == "raised":
                    viols.append((rejected_key(expr), f"`{expr}` raised {got}"))
            else:
                outcome = "value"
                if got_kind == "raised":
                    viols.append((rejected_key(expr), f"`{expr}` raised {got}, reference {expected!r}"))
                elif got_kind != "value":
                    viols.append(("C10/resolvable-expression-not-resolved", f"`{expr}` -> {got_kind} {got!r}, reference {expected!r}"))
                elif "$url" in expr:
                    if isinstance(expected, str) and isinstance(got, str) and got.split("?")[0] not in expected and expected.split("?")[0] not in got:
                        viols.append(("C10/expression-value-mismatch:url", f"`{expr}` -> {got!r}, reference {expected!r}"))
                elif got != expected or type(got) is not type(expected):
                    viols.append(("C10/expression-value-mismatch", f"`{expr}` -> {got!r}, reference {expected!r}"))
        emit.case(sig=f"{shape}|{re.sub(r'[0-9]+', 'N', expr)[:60]}|{outcome}" if nontrivial else None)
        for key, what in viols:
            emit.viol(key, what, case)
    else:
        expr = malform(rng, None)
        emit.count("malformed_checked")
        try:
            got = p1.evaluate(expr, output)
            emit.viol("C10/malformed-expression-evaluated", f"`{expr}` evaluated to {got!r} instead of being rejected", {"expr": expr})
        except Exception:
            pass
        emit.case(sig=f"malformed|{expr}")


# ------------------------------------------------------------------------------------------ Part 2
def link_document():
    item_schema = {"type": "object", "properties": {"name": {"type": "string", "maxLength": 5}, "qty": {"type": "integer"}}, "required": ["name"], "additionalProperties": False}
    links_exact = {
        "GetIt": {
            "operationId": "getItem",
            # `id` exists in the path and in the query of the target: the qualified name decides
            "parameters": {"id": "$response.body#/id", "query.v": "$request.query.ver", "X-Tok": "$response.header.X-Token", "query.id": "$request.query.ver"},
        }
    }
    links_wild = {
        "PutIt": {
            "operationRef": "#/paths/~1items~1{id}/put",
            "parameters": {"path.id": "$response.body#/id"},
            "requestBody": {"name": "$response.body#/name", "qty": 7, "tag": "pre-{$response.body#/id}-post", "nested": {"k": ["$response.body#/tags/0", "lit"]}, "members": [{"id": "$response.body#/id", "via": "{$method}"}], "matrix": [["$response.body#/id", 1], []]},
            "x-schemathesis": {"merge_body": False},
        },
        "Loc": {"operationId": "getItem", "parameters": {"id": "$response.header.Location#regex:/items/(\\d+)", "query.v": "const-v"}},
    }
    links_default = {"DelIt": {"operationId": "deleteItem", "parameters": {"id": "$response.body#/error/ref", "header.X-Why": "$response.body#/missing/deep"}}}
    ok_obj = {"description": "ok", "content": {"application/json": {"schema": {"type": "object"}}}}
    return docs.base(
        {
            "/items": {
                "post": {
                    "operationId": "createItem",
                    "parameters": [{"name": "ver", "in": "query", "required": True, "schema": {"type": "string", "enum": ["a1", "b2"]}}],
                    "requestBody": {"required": True, "content": {"application/json": {"schema": item_schema}}},
                    "responses": {
                        "201": dict(ok_obj, links=links_exact),
                        "2XX": dict(ok_obj, links=links_wild),
                        # documented codes without links: `default` must not pick these responses up
                        "404": copy.deepcopy(ok_obj),
                        "5XX": copy.deepcopy(ok_obj),
                        "default": dict(ok_obj, links=links_default),
                    },
                }
            },
            # a second link source whose `default` stands for OTHER codes than the first one's (200 and 4XX are documented here)
            "/orders": {
                "post": {
                    "operationId": "createOrder",
                    "requestBody": {"required": True, "content": {"application/json": {"schema": item_schema}}},
                    "responses": {
                        "200": copy.deepcopy(ok_obj),
                        "4XX": copy.deepcopy(ok_obj),
                        "default": dict(ok_obj, links={"DelOrd": {"operationId": "deleteItem", "parameters": {"id": "$response.body#/error/ref"}}}),
                    },
                }
            },
            "/items/{id}": {
                "get": {
                    "operationId": "getItem",
                    "parameters": [docs.int_param("id", "path"), {"name": "v", "in": "query", "schema": {"type": "string"}}, {"name": "X-Tok", "in": "header", "schema": {"type": "string"}}, {"name": "id", "in": "query", "schema": {"type": "string"}}],
                    "responses": {"200": copy.deepcopy(ok_obj)},
                },
                "put": {
                    "operationId": "putItem",
                    "parameters": [docs.int_param("id", "path")],
                    "requestBody": {"required": True, "content": {"application/json": {"schema": {"type": "object"}}}},
                    "responses": {"200": copy.deepcopy(ok_obj)},
                },
                "delete": {
                    "operationId": "deleteItem",
                    "parameters": [docs.int_param("id", "path"), {"name": "X-Why", "in": "header", "schema": {"type": "string"}}],
                    "responses": {"200": copy.deepcopy(ok_obj)},
                },
            },
        }
    )


def make_dynamic(seed):
    statuses = [201, 201, 200, 202, 400, 201, 500, 204, 201, 404, 409, 503, 201, 200, 422]
    import zlib

    def dynamic(record, then):
        if record["method"] == "POST" and record["path"] == "/items":
            # a pure function of the request: Hypothesis replays must see the same API behaviour
            n = zlib.crc32((record["raw_path"] + "|" + record["body"]).encode("utf-8", "replace"))
            rng = random.Random(f"{seed}:{n}")
            status = statuses[n % len(statuses)]
            ident = rng.choice([0, 0, rng.randint(1, 999), rng.randint(1, 999)])  # falsy values are values too
            if status >= 400:
                body = {"error": {"ref": rng.choice([0, rng.randint(1000, 1999)]), "msg": "no"}}
            else:
                body = {"id": ident, "name": rng.choice(["ann", "bob", "c d", "é", ""]), "tags": [rng.choice(["t1", "t2", ""])]}
            headers = {"X-Token": f"tok{rng.randint(10, 99)}", "Location": f"/items/{ident}"}
            return status, headers, json.dumps(body).encode(), "application/json"
        if record["method"] == "POST" and record["path"] == "/orders":
            n = zlib.crc32((record["raw_path"] + "|" + record["body"]).encode("utf-8", "replace"))
            rng = random.Random(f"{seed}:o:{n}")
            status = [200, 201, 404, 503, 201, 422, 500, 202][n % 8]
            return status, {}, json.dumps({"error": {"ref": rng.choice([0, rng.randint(1000, 1999)])}}).encode(), "application/json"
        return None

    return dynamic


def status_matches(key, status, all_keys):
    key = str(key)
    if key == "default":
        for other in all_keys:
            other = str(other)
            if other == "default":
                continue
            if other == str(status) or (other.upper().endswith("XX") and other[0] == str(status)[0]):
                return False
        return True
    if key.upper().endswith("XX"):
        return key[0] == str(status)[0]
    return key == str(status)


def part2_run(seed, cfg_extra):
    from vmon.instr import engine

    doc = link_document()
    cfg = {"phases": ["stateful"], "max_examples": 8, "seed": seed, "stateful_step_count": 5, "checks": []}
    cfg.update(cfg_extra)
    result = engine.run_api(doc, cfg, dynamic=make_dynamic(seed), timeout=150)
    return doc, result


def header_of(r, name):
    for k, v in r["headers"]:
        if k.lower() == name.lower():
            return v
    return None


def judge_part2(doc, result):
    viols = []
    stats = {}
    by_case = {}
    for r in result.test_requests():
        cid = header_of(r, "x-schemathesis-testcaseid")
        if cid:
            by_case[cid] = r
    sources = {"POST /items": doc["paths"]["/items"]["post"]["responses"], "POST /orders": doc["paths"]["/orders"]["post"]["responses"]}
    link_defs = {}
    for source, source_responses in sources.items():
        for key, resp in source_responses.items():
            for name, link in resp.get("links", {}).items():
                link_defs[(source, key, name)] = link
    target_templates = {"getItem": ("GET", "/items/{id}"), "putItem": ("PUT", "/items/{id}"), "deleteItem": ("DELETE", "/items/{id}")}
    checked = 0
    for e in result.events:
        if e["type"] != "ScenarioFinished" or e["phase"] != "STATEFUL_TESTING":
            continue
        cases = e["recorder"]["cases"]
        for cid, c in cases.items():
            if not c["has_transition"] or c["parent_id"] is None:
                continue
            tid = c.get("transition_id") or ""
            m = re.match(r"^(.*) -> \[(.*)\] (.*) -> (.*)$", tid)
            if not m:
                continue
            source_label, key, name, target_label = m.groups()
            link = link_defs.get((source_label, key, name))
            responses = sources.get(source_label)
            parent, child = by_case.get(c["parent_id"]), by_case.get(cid)
            if link is None or parent is None or child is None:
                continue
            checked += 1
            kind = "default" if key == "default" else "wildcard" if key.upper().endswith("XX") else "exact"
            stats[f"links_followed:{kind}"] = stats.get(f"links_followed:{kind}", 0) + 1
            if not status_matches(key, parent["status"], list(responses)):
                viols.append((f"C10/link-followed-from-non-matching-status:{kind}", f"link {name} under `{key}` followed from a {parent['status']} response"))
            try:
                req_body = json.loads(parent["body"]) if parent["body"] else rtexpr.ABSENT
            except ValueError:
                req_body = rtexpr.ABSENT
            try:
                resp_body = json.loads(parent.get("response_body") or "")
            except ValueError:
                resp_body = rtexpr.ABSENT
            exchange = {
                "method": parent["method"],
                "url": result.base_url + parent["raw_path"],
                "query": dict(parse_qsl(parent["query"], keep_blank_values=True)),
                "path": {},
                "headers": dict(parent["headers"]),
                "body": req_body,
                "status": parent["status"],
                "response_headers": {"X-Token": [parent.get("_resp_headers", {}).get("X-Token")]} if False else None,
                "response_body": resp_body,
            }
            exchange["response_headers"] = {k: [v] for k, v in (parent.get("response_headers") or {}).items()}
            for pname, expr in (link.get("parameters") or {}).items():
                location, _, bare = pname.rpartition(".")
                bare = bare if location else pname
                if not location:
                    location = {"id": "path", "v": "query", "X-Tok": "header", "X-Why": "header"}.get(bare)
                try:
                    expected = rtexpr.evaluate(expr, exchange)
                except rtexpr.Malformed:
                    continue
                if expected is rtexpr.ABSTAIN:
                    continue
                if location == "path":
                    seg = unquote(child["path"].rsplit("/", 1)[1])
                    wire = seg
                elif location == "query":
                    values = [v for k, v in parse_qsl(child["query"], keep_blank_values=True) if k == bare]
                    wire = values[0] if len(values) == 1 else (None if not values else values)
                else:
                    wire = header_of(child, bare)
                if expected is rtexpr.NOVALUE:
                    # (only the link's own expression text counts: Hypothesis also draws string constants found in
                    #  imported modules - including this one - so a generated value may look like some other expression)
                    if isinstance(wire, str) and wire == expr:
                        viols.append(("C10/unresolvable-link-value-sent-literally", f"{pname} = {wire!r}"))
                    continue
                if wire is None or str(expected) != wire:
                    viols.append((f"C10/link-parameter-not-passed:{location}", f"link {name}: {pname} should be {expected!r} (from `{expr}`), request carries {wire!r}"))
            if "requestBody" in link:
                def ev(node):
                    if isinstance(node, dict):
                        return {k: ev(v) for k, v in node.items()}
                    if isinstance(node, list):
                        return [ev(v) for v in node]
                    return rtexpr.evaluate(node, exchange)

                try:
                    expected_body = ev(link["requestBody"])
                except rtexpr.Malformed:
                    expected_body = None

                def has_marker(node):
                    if isinstance(node, dict):
                        return any(has_marker(v) for v in node.values())
                    if isinstance(node, list):
                        return any(has_marker(v) for v in node)
                    return node is rtexpr.NOVALUE or node is rtexpr.ABSTAIN

                if expected_body is not None and not has_marker(expected_body):
                    try:
                        sent = json.loads(child["body"])
                    except ValueError:
                        sent = None
                    if sent != expected_body:
                        viols.append(("C10/link-request-body-not-passed", f"link {name}: body should be {expected_body!r}, request carries {str(sent)[:200]!r}"))
    stats["derived_requests_checked"] = checked
    return viols, stats


def plan(tier, seed):
    nshards = 16 if tier == "quick" else 32
    return [{"tier": tier, "seed": seed, "shard": i, "nshards": nshards} for i in range(nshards)]


def run_shard(spec, emit):
    tier, seed, shard = spec["tier"], spec["seed"], spec["shard"]
    rng = random.Random(f"{seed}:C10:{shard}")
    p1 = Part1()
    n1 = 2500 if tier == "quick" else 40000
    for _ in range(n1):
        part1_case(p1, rng, emit)
    # link construction: malformed expressions must make the link invalid
    import schemathesis
    from schemathesis.core.result import Err
    from schemathesis.specs.openapi.stateful.links import get_all_links

    for _ in range(60 if tier == "quick" else 600):
        expr = malform(rng, None)
        doc = link_document()
        doc["paths"]["/items"]["post"]["responses"]["201"]["links"]["GetIt"]["parameters"]["id"] = expr
        schema = schemathesis.openapi.from_dict(doc)
        operation = schema["/items"]["POST"]
        results = [r for _, r in get_all_links(operation)]
        bad = [r for r in results if isinstance(r, Err)]
        emit.count("malformed_links_checked")
        emit.case(sig=f"link-malformed|{expr}")
        if not bad:
            emit.viol("C10/malformed-link-expression-accepted", f"link with parameter expression `{expr}` was constructed without error", {"expr": expr})
    # Part 2
    n_runs = 1 if tier == "quick" else 20
    deadline = time.monotonic() + (60 if tier == "quick" else 300)
    for i in range(n_runs):
        if time.monotonic() > deadline:
            break
        extra = rng.choice([{}, {"workers": 2}, {"modes": ["positive", "negative"]}, {"phases": ["fuzzing", "stateful"], "max_examples": 8}])
        doc, result = part2_run(seed * 1000 + shard * 50 + i, extra)
        if result.hung:
            emit.inconclusive("watchdog fired in stateful run")
            continue
        viols, stats = judge_part2(doc, result)
        emit.case(sig=f"run|{extra}|{sorted(stats.items())}", sample={"config": extra, "observed": stats} if i == 0 and shard == 0 else None)
        emit.count("stateful_runs")
        for k, v in stats.items():
            emit.count(k, v)
        for key, what in viols:
            emit.viol(key, what, {"run_seed": seed * 1000 + shard * 50 + i, "extra": extra})


def replay(case):
    if "expr" in case and "request_body" in case:
        return []
    return []

"""C19 — extensions (hooks, auth providers) apply exactly where their own filters say.

Monitor: registration scripts are executed against the real dispatchers / auth storages through the public
decorator forms; every registered hook logs (its id, the operation it is invoked for) while real cases are drawn
from `operation.as_strategy(hooks=..., auth_storage=...)` for every operation of a small API. Oracle: a list of
(hook, own filter, scope) kept by the harness and an independent matcher over the raw operation definitions.
"""

from __future__ import annotations

import itertools
import random
import time

ID = "C19"
LEVEL = "exploration"
RULE = (
    "registration scripts over forms {plain, named, apply_to, skip_for, apply+skip, apply+apply, named.apply_to, "
    "named.skip_for, apply_to(..)(name)} x scopes {global, schema.hook, schema.hooks.register, test dispatcher} x 12 hook "
    "kinds x 11 filters, interleaved with unregister / unregister_all; every sequence of <=2 (form,scope) steps is "
    "enumerated, length 3-4 sampled with the seed; auth scripts likewise over register/apply/set_from_requests at three "
    "scopes. Non-trivial = at least one registration carries a filter that excludes some operation; distinct = distinct "
    "(script shape, applied-set) signatures"
)
ASSUMPTIONS = [
    "hooks observe their own invocation (side-effect log) while cases are drawn with max_examples=1..3",
    "auth: when several providers of the effective storage match an operation any of them may be applied (precedence is not part of the statement); "
    "a narrower scope whose providers do not match is not judged",
]
MIN_EVALUATIONS = {"quick": 1500, "thorough": 20000}
MIN_NONTRIVIAL = {"quick": 300, "thorough": 3000}
REACH_FLOORS = {"hook_invocations": 2000, "auth_applications": 200}
SHARD_TIMEOUT = {"quick": 900, "thorough": 5400}

DOC = {
    "openapi": "3.0.2",
    "info": {"title": "t", "version": "1"},
    "paths": {
        "/users": {
            "get": {
                "tags": ["a"],
                "operationId": "listUsers",
                "parameters": [{"name": "q", "in": "query", "required": True, "schema": {"type": "integer"}}],
                "responses": {"200": {"description": "ok"}},
            },
            "post": {
                "tags": ["b"],
                "operationId": "createUser",
                "parameters": [{"name": "q", "in": "query", "required": True, "schema": {"type": "integer"}}],
                "requestBody": {
                    "required": True,
                    "content": {"application/json": {"schema": {"type": "object", "properties": {"n": {"type": "integer"}}}}},
                },
                "responses": {"200": {"description": "ok"}},
            },
        },
        "/users/{id}": {
            "get": {
                "parameters": [
                    {"name": "id", "in": "path", "required": True, "schema": {"type": "integer"}},
                    {"name": "q", "in": "query", "required": True, "schema": {"type": "integer"}},
                ],
                "responses": {"200": {"description": "ok"}},
            }
        },
        "/orders/{id}": {
            "delete": {
                "tags": ["a", "c"],
                "operationId": "deleteOrder",
                "parameters": [
                    {"name": "id", "in": "path", "required": True, "schema": {"type": "integer"}},
                    {"name": "q", "in": "query", "required": True, "schema": {"type": "integer"}},
                    {"name": "X-H", "in": "header", "required": True, "schema": {"type": "integer"}},
                ],
                "responses": {"200": {"description": "ok"}},
            }
        },
    },
}

# raw facts about the operations, for the reference matcher
OPERATIONS = [
    {"label": "GET /users", "method": "GET", "path": "/users", "tags": ["a"], "operation_id": "listUsers"},
    {"label": "POST /users", "method": "POST", "path": "/users", "tags": ["b"], "operation_id": "createUser"},
    {"label": "GET /users/{id}", "method": "GET", "path": "/users/{id}", "tags": None, "operation_id": None},
    {"label": "DELETE /orders/{id}", "method": "DELETE", "path": "/orders/{id}", "tags": ["a", "c"], "operation_id": "deleteOrder"},
]

FILTERS = [
    {"method": "GET"},
    {"method": "post"},
    {"method": ["get", "Delete"]},
    {"path": "/users"},
    {"name": "POST /users"},
    {"path_regex": "^/orders"},
    {"tag": "a"},
    {"tag": ["b", "c"]},
    {"operation_id": "listUsers"},
    {"operation_id_regex": "User$"},
    {"method": "GET", "path": "/users"},
    {"func": "has_id"},
    {"name_regex": "users/"},
]
AUTH_FILTERS = [f for f in FILTERS if not ({"tag", "operation_id", "operation_id_regex"} & set(f))]

HOOK_NAMES = [
    "map_query",
    "filter_query",
    "flatmap_query",
    "before_generate_query",
    "map_headers",
    "map_path_parameters",
    "map_body",
    "map_cookies",
    "map_case",
    "filter_case",
    "flatmap_case",
    "before_generate_case",
]
FORMS = ["plain", "named", "apply", "skip", "apply_skip", "apply_apply", "named_apply", "named_skip", "apply_then_named"]
SCOPES = ["global", "schema_hook", "schema_hooks_register", "test"]


# ---------------------------------------------------------------- reference matcher (independent of the product)
def ref_match_one(flt: dict, op: dict) -> bool:
    import re

    for key, expected in flt.items():
        if key == "func":
            if "{id}" not in op["path"]:
                return False
            continue
        regex = key.endswith("_regex")
        attr = key[: -len("_regex")] if regex else key
        if attr == "name":
            value = op["label"]
        elif attr == "method":
            value = op["method"]
            if not regex:
                expected = [e.upper() for e in expected] if isinstance(expected, list) else expected.upper()
        elif attr == "path":
            value = op["path"]
        elif attr == "tag":
            value = op["tags"]
        elif attr == "operation_id":
            value = op["operation_id"]
        else:
            raise AssertionError(key)
        if value is None:
            return False
        values = value if isinstance(value, list) else [value]
        if regex:
            flags = re.IGNORECASE if attr == "method" else 0
            if not any(re.search(expected, v, flags) for v in values):
                return False
        elif isinstance(expected, list):
            if not any(v in expected for v in values):
                return False
        elif expected not in values:
            return False
    return True


def ref_applies(includes: list, excludes: list, op: dict) -> bool:
    if any(ref_match_one(f, op) for f in excludes):
        return False
    if not includes:
        return True
    return any(ref_match_one(f, op) for f in includes)


# ---------------------------------------------------------------- script generation
def gen_step(rng, form, scope):
    name = rng.choice(HOOK_NAMES)
    f1, f2 = rng.sample(FILTERS, 2)
    return {"do": "reg", "form": form, "scope": scope, "hook": name, "f1": f1, "f2": f2}


def scripts_for(tier, seed, shard, nshards):
    rng = random.Random(f"{seed}:C19:scripts")
    pairs = [(f, s) for f in FORMS for s in SCOPES]
    actions = [("reg", p) for p in pairs] + [("unreg", None), ("unreg_all", None)]
    rereg_actions = [("rereg", p) for p in pairs]
    out = []
    # every sequence of <= 2 steps
    reps = 1 if tier == "quick" else 3
    for length in (1, 2):
        for combo in itertools.product(actions, repeat=length):
            for _ in range(reps):
                out.append(combo)
    n_random = 2500 if tier == "quick" else 60000
    for _ in range(n_random):
        length = rng.choice([3, 3, 4])
        out.append(tuple(rng.choice(actions) for _ in range(length)))
    # register, unregister, register the same function object again: every (form, scope) x (form, scope) pair
    for first in pairs:
        for second in pairs:
            if first[1] == second[1] or rng.random() < 0.25:
                out.append((("reg", first), ("unreg", None), ("rereg", second)))
    for _ in range(n_random // 5):
        out.append((("reg", rng.choice(pairs)), rng.choice(actions), ("unreg", None), rng.choice(rereg_actions), rng.choice(actions + rereg_actions)))
    scripts = []
    for idx, combo in enumerate(out):
        if idx % nshards != shard:
            continue
        r = random.Random(f"{seed}:C19:{idx}")
        steps = []
        for kind, pair in combo:
            if kind in ("reg", "rereg"):
                steps.append(dict(gen_step(r, *pair), do=kind))
            elif kind == "unreg":
                steps.append({"do": "unreg", "k": r.randrange(0, 3)})
            else:
                steps.append({"do": "unreg_all", "scope": r.choice(["global", "schema", "test"])})
        scripts.append({"kind": "hooks", "steps": steps, "idx": idx})
    return scripts


def auth_scripts_for(tier, seed, shard, nshards):
    rng = random.Random(f"{seed}:C19:auth")
    n = 600 if tier == "quick" else 12000
    forms = ["register", "register_apply", "register_skip", "register_apply_skip", "requests", "requests_apply", "requests_skip"]
    scripts = []
    for idx in range(n):
        length = rng.choice([1, 2, 2, 3])
        steps = []
        for _ in range(length):
            scope = rng.choice(["global", "schema", "schema", "test"])
            form = rng.choice(forms if scope != "test" else ["apply", "apply_apply", "apply_skip"])
            f1, f2 = rng.sample(AUTH_FILTERS, 2)
            steps.append(
                {
                    "scope": scope,
                    "form": form,
                    "f1": f1,
                    "f2": f2,
                    "cache": rng.choice([None, 300, "keyed"]),
                }
            )
        if idx % nshards == shard:
            scripts.append({"kind": "auth", "steps": steps, "idx": idx})
    return scripts


def plan(tier, seed):
    nshards = 16 if tier == "quick" else 32
    return [{"tier": tier, "seed": seed, "shard": i, "nshards": nshards} for i in range(nshards)]


# ---------------------------------------------------------------- execution against the real code
def make_filter_kwargs(flt):
    kwargs = dict(flt)
    if "func" in kwargs:
        kwargs.pop("func")

        def has_id(ctx):
            return "{id}" in ctx.operation.path

        return (has_id,), kwargs
    return (), kwargs


class Runner:
    def __init__(self):
        import hypothesis
        import schemathesis
        from hypothesis import strategies as st
        from schemathesis import auths, hooks

        self.schemathesis = schemathesis
        self.hooks = hooks
        self.auths = auths
        self.st = st
        self.hypothesis = hypothesis
        self.log = set()
        self.settings = hypothesis.settings(
            max_examples=2,
            database=None,
            deadline=None,
            phases=[hypothesis.Phase.generate],
            suppress_health_check=list(hypothesis.HealthCheck),
            derandomize=True,
        )

    def fresh_schema(self):
        import copy

        self.hooks.unregister_all()
        self.auths.GLOBAL_AUTH_STORAGE.unregister()
        schema = self.schemathesis.openapi.from_dict(copy.deepcopy(DOC))
        return schema

    def make_hook(self, hook_id, name):
        log = self.log
        st = self.st
        if name.startswith("map_"):

            def fn(ctx, value):
                log.add((fn.hook_id, ctx.operation.label))
                return value

        elif name.startswith("filter_"):

            def fn(ctx, value):
                log.add((fn.hook_id, ctx.operation.label))
                return True

        elif name.startswith("flatmap_"):

            def fn(ctx, value):
                log.add((fn.hook_id, ctx.operation.label))
                return st.just(value)

        else:

            def fn(ctx, strategy):
                log.add((fn.hook_id, ctx.operation.label))
                return strategy

        fn.__name__ = name
        fn.__qualname__ = name
        fn.hook_id = hook_id
        return fn

    def draw_all(self, schema, hooks=None, auth_storage=None, n=1):
        cases = {}
        for op in OPERATIONS:
            method, path = op["label"].split(" ", 1)
            operation = schema[path][method]
            strategy = operation.as_strategy(hooks=hooks, auth_storage=auth_storage)
            seen = []

            @self.hypothesis.given(case=strategy)
            @self.settings
            def test(case):
                seen.append(case)

            test()
            cases[op["label"]] = seen
        return cases

    # ---- hooks
    def run_hook_script(self, script):
        schema = self.fresh_schema()
        test_dispatcher = self.hooks.HookDispatcher(scope=self.hooks.HookScope.TEST)
        self.log.clear()
        dispatchers = {
            "global": self.hooks.GLOBAL_HOOK_DISPATCHER,
            "schema": schema.hooks,
            "test": test_dispatcher,
        }
        registers = {
            "global": (self.schemathesis.hook, "global"),
            "schema_hook": (schema.hook, "schema"),
            "schema_hooks_register": (schema.hooks.register, "schema"),
            "test": (test_dispatcher.register, "test"),
        }
        model = []  # [{"id", "scope", "name", "inc", "exc", "fn"}]
        retired = []  # function objects that were registered once and then unregistered
        errors = []
        next_id = 0
        for step in script["steps"]:
            if step["do"] in ("reg", "rereg"):
                reg, scope = registers[step["scope"]]
                if step["do"] == "rereg" and retired:
                    # the same function object is registered again (with other filters or none)
                    old = retired.pop(0)
                    fn = old["fn"]
                    fn.hook_id = next_id
                    step = dict(step, hook=old["name"])
                    fn.__name__ = old["name"]
                else:
                    fn = self.make_hook(next_id, step["hook"])
                form = step["form"]
                inc, exc = [], []
                a1, k1 = make_filter_kwargs(step["f1"])
                a2, k2 = make_filter_kwargs(step["f2"])
                try:
                    if form == "plain":
                        reg(fn)
                    elif form == "named":
                        fn.__name__ = "custom_name"
                        reg(step["hook"])(fn)
                    elif form == "apply":
                        reg.apply_to(*a1, **k1)(fn)
                        inc = [step["f1"]]
                    elif form == "skip":
                        reg.skip_for(*a1, **k1)(fn)
                        exc = [step["f1"]]
                    elif form == "apply_skip":
                        reg.apply_to(*a1, **k1).skip_for(*a2, **k2)(fn)
                        inc, exc = [step["f1"]], [step["f2"]]
                    elif form == "apply_apply":
                        reg.apply_to(*a1, **k1).apply_to(*a2, **k2)(fn)
                        inc = [step["f1"], step["f2"]]
                    elif form == "named_apply":
                        fn.__name__ = "custom_name"
                        reg(step["hook"]).apply_to(*a1, **k1)(fn)
                        inc = [step["f1"]]
                    elif form == "named_skip":
                        fn.__name__ = "custom_name"
                        reg(step["hook"]).skip_for(*a1, **k1)(fn)
                        exc = [step["f1"]]
                    elif form == "apply_then_named":
                        fn.__name__ = "custom_name"
                        reg.apply_to(*a1, **k1)(step["hook"])(fn)
                        inc = [step["f1"]]
                    else:
                        raise AssertionError(form)
                except Exception as exc_:  # registration through a public form must not fail
                    errors.append(f"registration form={form} scope={step['scope']} raised {type(exc_).__name__}: {exc_}")
                    continue
                model.append({"id": next_id, "scope": scope, "name": step["hook"], "inc": inc, "exc": exc, "fn": fn})
                next_id += 1
            elif step["do"] == "unreg":
                if model:
                    entry = model[step["k"] % len(model)]
                    dispatchers[entry["scope"]].unregister(entry["fn"])
                    model.remove(entry)
                    retired.append(entry)
            else:
                scope = step["scope"]
                dispatchers[scope].unregister_all()
                retired.extend(m for m in model if m["scope"] == scope)
                model = [m for m in model if m["scope"] != scope]
        try:
            self.draw_all(schema, hooks=test_dispatcher)
        except Exception as exc_:
            errors.append(f"drawing cases raised {type(exc_).__name__}: {exc_}")
        observed = set(self.log)
        # body hooks only see operations that have a body; cookies/headers hooks are applied for every operation
        expected = set()
        for entry in model:
            for op in OPERATIONS:
                if entry["name"] == "map_body" and op["label"] != "POST /users":
                    continue
                if ref_applies(entry["inc"], entry["exc"], op):
                    expected.add((entry["id"], op["label"]))
        self.hooks.unregister_all()
        return model, expected, observed, errors

    # ---- auth
    def run_auth_script(self, script):
        import requests.auth

        schema = self.fresh_schema()
        model = {"global": [], "schema": [], "test": []}
        errors = []
        test_fn = None
        next_id = 0

        def make_provider(pid):
            class Provider:
                def get(self, case, context):
                    return f"tok{pid}"

                def set(self, case, data, context):
                    case.headers = {**(case.headers or {}), "X-Auth": data}

            Provider.__name__ = f"Provider{pid}"
            return Provider

        class Marker(requests.auth.AuthBase):
            def __init__(self, pid):
                self.pid = pid

        for step in script["steps"]:
            a1, k1 = make_filter_kwargs(step["f1"])
            a2, k2 = make_filter_kwargs(step["f2"])
            scope, form = step["scope"], step["form"]
            kwargs = {}
            if step["cache"] is None:
                kwargs["refresh_interval"] = None
            elif step["cache"] == "keyed":
                kwargs["cache_by_key"] = lambda case, ctx: ctx.operation.label
            inc, exc = [], []
            try:
                if scope == "test":
                    if test_fn is not None:
                        continue

                    def test_fn(case):  # noqa: F811
                        pass

                    deco = schema.auth(make_provider(next_id), **kwargs)
                    if form == "apply_apply":
                        deco = deco.apply_to(*a1, **k1).apply_to(*a2, **k2)
                        inc = [step["f1"], step["f2"]]
                    elif form == "apply_skip":
                        deco = deco.apply_to(*a1, **k1).skip_for(*a2, **k2)
                        inc, exc = [step["f1"]], [step["f2"]]
                    else:
                        deco = deco.apply_to(*a1, **k1)
                        inc = [step["f1"]]
                    deco(test_fn)
                else:
                    storage = self.auths.GLOBAL_AUTH_STORAGE if scope == "global" else schema.auth
                    if form.startswith("requests"):
                        chain = storage.set_from_requests(Marker(next_id))
                        if form == "requests_apply":
                            chain.apply_to(*a1, **k1)
                            inc = [step["f1"]]
                        elif form == "requests_skip":
                            chain.skip_for(*a1, **k1)
                            exc = [step["f1"]]
                    else:
                        deco = storage.register(**kwargs) if scope == "schema" else self.schemathesis.auth(**kwargs)
                        if form == "register_apply":
                            deco = deco.apply_to(*a1, **k1)
                            inc = [step["f1"]]
                        elif form == "register_skip":
                            deco = deco.skip_for(*a1, **k1)
                            exc = [step["f1"]]
                        elif form == "register_apply_skip":
                            deco = deco.apply_to(*a1, **k1).skip_for(*a2, **k2)
                            inc, exc = [step["f1"]], [step["f2"]]
                        deco(make_provider(next_id))
            except Exception as exc_:
                errors.append(f"auth registration form={form} scope={scope} raised {type(exc_).__name__}: {exc_}")
                continue
            model[scope].append({"id": next_id, "inc": inc, "exc": exc, "requests": form.startswith("requests")})
            next_id += 1
        auth_storage = self.auths.AuthStorageMark.get(test_fn) if test_fn is not None else None
        observed = {}
        try:
            cases = self.draw_all(schema, auth_storage=auth_storage)
            for label, seen in cases.items():
                applied = set()
                for case in seen:
                    token = (case.headers or {}).get("X-Auth")
                    if token is not None:
                        applied.add(int(token[3:]))
                    elif isinstance(case._auth, Marker):
                        applied.add(case._auth.pid)
                    else:
                        applied.add(None)
                observed[label] = applied
        except Exception as exc_:
            errors.append(f"drawing cases raised {type(exc_).__name__}: {exc_}")
        self.auths.GLOBAL_AUTH_STORAGE.unregister()
        return model, observed, errors


def judge_auth(model, observed):
    """Returns list of (key, what)."""
    out = []
    effective_scope = "test" if model["test"] else "schema" if model["schema"] else "global" if model["global"] else None
    for op in OPERATIONS:
        applied = observed.get(op["label"])
        if applied is None:
            continue
        if effective_scope is None:
            allowed = {None}
        else:
            matching = {p["id"] for p in model[effective_scope] if ref_applies(p["inc"], p["exc"], op)}
            if matching:
                allowed = matching
            else:
                # the narrower storage has no matching provider: not judged beyond "no non-matching provider of it"
                broader = set()
                for scope in ("schema", "global"):
                    if scope != effective_scope:
                        broader |= {p["id"] for p in model[scope] if ref_applies(p["inc"], p["exc"], op)}
                allowed = {None} | broader
        bad = applied - allowed
        if bad:
            all_ids = {p["id"]: (scope, p) for scope in model for p in model[scope]}
            for pid in bad:
                if pid is None:
                    out.append(("C19/auth-matching-provider-not-applied", f"{op['label']}: no auth applied, expected one of {sorted(allowed, key=str)}"))
                else:
                    scope, p = all_ids[pid]
                    if ref_applies(p["inc"], p["exc"], op):
                        out.append(("C19/auth-provider-of-shadowed-scope-applied", f"{op['label']}: provider {pid} of scope {scope} applied although scope {effective_scope} has a matching provider"))
                    else:
                        out.append(("C19/auth-provider-applied-outside-its-filters", f"{op['label']}: provider {pid} (inc={p['inc']} exc={p['exc']}) applied"))
    return out


def classify_hooks(model, expected, observed):
    out = []
    by_id = {m["id"]: m for m in model}
    for hook_id, label in sorted(observed - expected, key=str):
        entry = by_id.get(hook_id)
        if entry is None:
            out.append(("C19/unregistered-hook-still-applied", f"hook {hook_id} invoked for {label} after it was unregistered"))
            continue
        kind = "case-hook" if entry["name"].endswith("_case") else "container-hook"
        out.append(
            (
                f"C19/{kind}-applied-outside-its-filters",
                f"{entry['name']} (scope {entry['scope']}, apply_to={entry['inc']} skip_for={entry['exc']}) invoked for {label}",
            )
        )
    for hook_id, label in sorted(expected - observed, key=str):
        entry = by_id[hook_id]
        kind = "case-hook" if entry["name"].endswith("_case") else "container-hook"
        out.append(
            (
                f"C19/{kind}-not-applied-where-its-filters-match",
                f"{entry['name']} (scope {entry['scope']}, apply_to={entry['inc']} skip_for={entry['exc']}) not invoked for {label}",
            )
        )
    return out


def check_script(runner, script):
    if script["kind"] == "hooks":
        model, expected, observed, errors = runner.run_hook_script(script)
        viols = classify_hooks(model, expected, observed)
        viols += [("C19/registration-or-generation-error", e) for e in errors]
        filtered = any(
            not all(ref_applies(m["inc"], m["exc"], op) for op in OPERATIONS) for m in model
        )
        shape = "|".join(
            f"{s.get('form', s['do'])}@{s.get('scope', '')}:{s.get('hook', '')}" for s in script["steps"]
        )
        sig = f"h:{shape}=>{sorted(observed)}" if filtered else None
        stats = {"hook_invocations": len(observed), "hooks_registered": len(model)}
        sample = {"script": script["steps"], "applied": sorted(observed)} if filtered else None
        return viols, sig, stats, sample
    model, observed, errors = runner.run_auth_script(script)
    viols = judge_auth(model, observed)
    viols += [("C19/registration-or-generation-error", e) for e in errors]
    n_applied = sum(1 for v in observed.values() for x in v if x is not None)
    shape = "|".join(f"{s['form']}@{s['scope']}" for s in script["steps"])
    nontrivial = any(p["inc"] or p["exc"] for scope in model for p in model[scope])
    sig = f"a:{shape}=>{sorted((k, sorted(v, key=str)) for k, v in observed.items())}" if nontrivial else None
    sample = {"script": script["steps"], "applied": {k: sorted(v, key=str) for k, v in observed.items()}} if nontrivial else None
    return viols, sig, {"auth_applications": n_applied}, sample


def run_shard(spec, emit):
    tier, seed, shard, nshards = spec["tier"], spec["seed"], spec["shard"], spec["nshards"]
    runner = Runner()
    scripts = scripts_for(tier, seed, shard, nshards) + auth_scripts_for(tier, seed, shard, nshards)
    random.Random(f"{seed}:{shard}").shuffle(scripts)
    deadline = time.monotonic() + (120 if tier == "quick" else 300)
    samples = 0
    for script in scripts:
        if time.monotonic() > deadline:
            emit.count("scripts_skipped_budget")
            continue
        viols, sig, stats, sample = check_script(runner, script)
        emit.case(sig=sig, sample=sample if samples < 2 and sample is not None else None)
        if sample is not None:
            samples += 1
        emit.count("scripts_" + script["kind"])
        for name, n in stats.items():
            emit.count(name, n)
        for key, what in viols:
            emit.viol(key, what, script)


def replay(case):
    runner = Runner()
    viols, _, _, _ = check_script(runner, case)
    return [{"key": k, "what": w} for k, w in viols]

"""C17 — every example in the schema is sent, verbatim, in the examples phase.

Monitor: (bulk) the cases produced by `operation.get_strategies_from_examples()` - the strategies the examples phase
is built from - one draw each; (sample) the API's request log of real engine runs with `phases=[examples]` plus the
run's events. Oracle: an independent extractor lists the document's examples by placement (each carries a unique
marker value); every one must occur at its place in at least one case / request of its operation, every case must
carry all required inputs, and an operation without examples must send nothing and be reported as skipped.
"""

from __future__ import annotations

import copy
import json
import random
import time
from urllib.parse import parse_qsl, unquote

from vmon.gen import docs
from vmon.oracles import oas_schema

ID = "C17"
LEVEL = "exploration"
RULE = (
    "documents: one or two operations with path/query/header parameters and a JSON body; unique marker examples placed at random "
    "subsets of: parameter example / examples (x-example(s) in 2.0), parameter schema example / examples list, media-type example / "
    "examples (incl. $ref'd example objects), body schema example, property-level examples, examples inside anyOf/oneOf/allOf branches; "
    " different numbers of examples per parameter; required parameters without examples; operations without any "
    "example; OpenAPI 2.0/3.0/3.1. Non-trivial = document with >= 1 example; distinct = distinct (placements, counts, version)"
)
ASSUMPTIONS = [
    "non-body values are compared up to string coercion; property-level examples must appear as that property's value in a body",
    "`externalValue` examples need the network and are out of scope",
]
MIN_EVALUATIONS = {"quick": 400, "thorough": 8000}
MIN_NONTRIVIAL = {"quick": 300, "thorough": 6000}
REACH_FLOORS = {"examples_expected": 1000, "cases_drawn": 800, "engine_runs": 5, "operations_without_examples": 20}
SHARD_TIMEOUT = {"quick": 900, "thorough": 5400}

PLACEMENTS = ["param_example", "param_examples", "param_schema_example", "param_schema_examples", "media_example", "media_examples", "media_examples_ref", "body_schema_example", "property_example", "branch_example", "falsy_property_example", "allof_property_example", "unsendable_header_example", "untyped_nested_property_example", "both_combinators_example", "allof_boolean_member_example"]


def plan(tier, seed):
    nshards = 16 if tier == "quick" else 32
    return [{"tier": tier, "seed": seed, "shard": i, "nshards": nshards} for i in range(nshards)]


class Marker:
    def __init__(self):
        self.n = 1000

    def integer(self):
        self.n += 1
        return self.n

    def string(self):
        self.n += 1
        return f"ex{self.n}"


def gen_document(rng, version):
    """-> (doc, expected) ; expected = [{"op": label, "where": ("query","q1") | ("body", None) | ("body", ("prop", "name")), "value": v, "placement": p}]"""
    three = version != "2.0"
    marker = Marker()
    expected = []
    chosen = set(rng.sample(PLACEMENTS, rng.randint(0, 5)))
    if rng.random() < 0.12:
        chosen = set()
    single = False
    if "unsendable_header_example" in chosen:
        # one header example that cannot be sent next to a good one; everything else has at most one example, so every
        # other example is part of the combination that CAN be sent
        chosen = {"param_examples", "unsendable_header_example"} | ({"media_example"} if rng.random() < 0.5 else set())
        single = True
    ex_field, exs_field = ("example", "examples") if three else ("x-example", "x-examples")
    components_examples = {}

    def param(name, where, ptype, required):
        schema = {"type": ptype}
        p = {"name": name, "in": where, "required": True if where == "path" else required}
        label = "POST /items/{pid}"
        mk = marker.integer if ptype == "integer" else marker.string
        if "param_example" in chosen and rng.random() < 0.6:
            v = mk()
            # in 2.0 both spellings are in use: `x-example` and the plain `example`
            p[ex_field if three or rng.random() < 0.5 else "example"] = v
            expected.append({"op": label, "where": (where, name), "value": v, "placement": "param_example"})
        if "param_examples" in chosen and (rng.random() < 0.6 or (single and where == "header")):
            p[exs_field] = {}
            if where == "header" and "unsendable_header_example" in chosen:
                # cannot be sent over HTTP at all: to be reported for the operation, the other examples still go out
                p[exs_field]["bad"] = {"value": "line\nbreak"}
                expected.append({"op": label, "where": (where, name), "value": "line\nbreak", "placement": "unsendable_header_example", "unsendable": True})
            for i in range(1 if single else rng.randint(1, 3)):
                v = mk()
                p[exs_field][f"e{i}"] = {"value": v}
                expected.append({"op": label, "where": (where, name), "value": v, "placement": "param_examples"})
        if "param_schema_example" in chosen and rng.random() < 0.5 and three:
            v = mk()
            schema["example"] = v
            expected.append({"op": label, "where": (where, name), "value": v, "placement": "param_schema_example"})
        if "param_schema_examples" in chosen and rng.random() < 0.5 and version == "3.1":
            vs = [mk() for _ in range(rng.randint(1, 2))]
            schema["examples"] = vs
            for v in vs:
                expected.append({"op": label, "where": (where, name), "value": v, "placement": "param_schema_examples"})
        if three:
            p["schema"] = schema
        else:
            p.update(schema)
        return p

    params = [param("pid", "path", "integer", True), param("q1", "query", "string", rng.random() < 0.6), param("q2", "query", "integer", True), param("X-H", "header", "string", False)]
    body_schema = {
        "type": "object",
        "required": ["name"],
        "properties": {
            "name": {"type": "string"},
            "count": {"type": "integer"},
            "tags": {"type": "array", "items": {"type": "string"}},
            "kind": {"anyOf": [{"type": "string"}, {"type": "integer"}]},
        },
    }
    label = "POST /items/{pid}"
    if "property_example" in chosen:
        v = marker.string()
        body_schema["properties"]["name"]["example"] = v
        expected.append({"op": label, "where": ("body", ("prop", "name")), "value": v, "placement": "property_example"})
        if rng.random() < 0.5:
            v = marker.integer()
            body_schema["properties"]["count"]["example"] = v
            expected.append({"op": label, "where": ("body", ("prop", "count")), "value": v, "placement": "property_example"})
    if "falsy_property_example" in chosen:
        # examples that are falsy in Python are examples all the same; the property names are unique to this placement
        for name, schema in rng.sample([("flag", {"type": "boolean", "example": False}), ("zero", {"type": "integer", "example": 0}), ("blank", {"type": "string", "example": ""}), ("none", {"type": "array", "items": {"type": "integer"}, "example": []})], rng.randint(1, 3)):
            body_schema["properties"][name] = schema
            expected.append({"op": label, "where": ("body", ("prop", name)), "value": schema["example"], "placement": "falsy_property_example"})
    if "allof_property_example" in chosen:
        # a property described by allOf: every branch has its own `required`; those without an example are to be filled in
        v = marker.string()
        body_schema["properties"]["owner"] = {
            "allOf": [
                {"type": "object", "properties": {"login": {"type": "string", "minLength": 3}, "mail": {"type": "string"}}, "required": ["login"]},
                {"type": "object", "properties": {"role": {"type": "string", "example": v}, "level": {"type": "integer", "minimum": 1}}, "required": ["role", "level"]},
            ]
        }
        if rng.random() < 0.5:
            body_schema["required"] = ["name", "owner"]
        expected.append({"op": label, "where": ("body", ("sub", "owner", "role")), "value": v, "placement": "allof_property_example"})
    if "untyped_nested_property_example" in chosen:
        # a property described by `properties` / `items` without an explicit `type`: its nested examples count all the same
        v = marker.string()
        body_schema["properties"]["meta"] = {"properties": {"deep": {"type": "string", "example": v}, "other": {"type": "integer"}}}
        expected.append({"op": label, "where": ("body", ("sub", "meta", "deep")), "value": v, "placement": "untyped_nested_property_example"})
    if "branch_example" in chosen:
        v = marker.string()
        body_schema["properties"]["kind"]["anyOf"][0]["example"] = v
        expected.append({"op": label, "where": ("body", ("prop", "kind")), "value": v, "placement": "branch_example"})
    if "both_combinators_example" in chosen:
        # one property described by anyOf AND oneOf at once: the examples of the branches of both keywords count
        va, vo = marker.string(), marker.string()
        body_schema["properties"]["shape"] = {"type": "string", "anyOf": [{"minLength": 1, "example": va}], "oneOf": [{"maxLength": 40, "example": vo}]}
        expected.append({"op": label, "where": ("body", ("prop", "shape")), "value": va, "placement": "both_combinators_example"})
        expected.append({"op": label, "where": ("body", ("prop", "shape")), "value": vo, "placement": "both_combinators_example"})
    if "allof_boolean_member_example" in chosen and version == "3.1":
        # boolean schemas are legal from OpenAPI 3.1 (JSON Schema 2020-12) on; `true` is a schema like any other: as the first member of allOf it must not hide the example of the next member
        v = marker.string()
        body_schema["properties"]["note"] = {"allOf": [True, {"type": "string", "example": v}]}
        expected.append({"op": label, "where": ("body", ("prop", "note")), "value": v, "placement": "allof_boolean_member_example"})
    if "items_example" in chosen:
        v = marker.string()
        body_schema["properties"]["tags"]["items"]["example"] = v
        expected.append({"op": label, "where": ("body", ("item", "tags")), "value": v, "placement": "items_example"})
    if "body_schema_example" in chosen:
        v = {"name": marker.string(), "count": marker.integer()}
        body_schema["example"] = v
        expected.append({"op": label, "where": ("body", None), "value": v, "placement": "body_schema_example"})
    op = {"parameters": params, "responses": {"200": {"description": "ok"}}}
    if three:
        media = {"schema": body_schema}
        if "media_example" in chosen:
            v = {"name": marker.string()}
            media["example"] = v
            expected.append({"op": label, "where": ("body", None), "value": v, "placement": "media_example"})
        elif "media_examples" in chosen or "media_examples_ref" in chosen:
            media["examples"] = {}
            for i in range(rng.randint(1, 3)):
                v = {"name": marker.string(), "count": marker.integer()}
                if "media_examples_ref" in chosen and i == 0:
                    components_examples[f"Ex{i}"] = {"value": v}
                    media["examples"][f"m{i}"] = {"$ref": f"#/components/examples/Ex{i}"}
                    expected.append({"op": label, "where": ("body", None), "value": v, "placement": "media_examples_ref"})
                else:
                    media["examples"][f"m{i}"] = {"value": v}
                    expected.append({"op": label, "where": ("body", None), "value": v, "placement": "media_examples"})
        op["requestBody"] = {"required": True, "content": {"application/json": media}}
    else:
        body_param = {"name": "payload", "in": "body", "required": True, "schema": body_schema}
        op["parameters"] = params + [body_param]
        op["consumes"] = ["application/json"]
    paths = {"/items/{pid}": {"post": op}, "/plain": {"get": {"parameters": [{"name": "z", "in": "query", "required": True, **({"schema": {"type": "integer"}} if three else {"type": "integer"})}], "responses": {"200": {"description": "ok"}}}}}
    if three:
        doc = {"openapi": "3.0.2" if version == "3.0" else "3.1.0", "info": {"title": "t", "version": "1"}, "paths": paths, "components": {"examples": components_examples}}
    else:
        doc = {"swagger": "2.0", "info": {"title": "t", "version": "1"}, "paths": paths}
    return doc, expected, sorted(chosen)


def occurs(expected_item, case_view):
    """case_view: {"path": {...}, "query": {...}, "header": {...}, "body": value|ABSENT}"""
    where, value = expected_item["where"], expected_item["value"]
    if where[0] != "body":
        container = case_view.get(where[0]) or {}
        if where[0] == "header":
            container = {k.lower(): v for k, v in container.items()}
            got = container.get(where[1].lower())
        else:
            got = container.get(where[1])
        if isinstance(got, list) and len(got) == 1:
            got = got[0]
        return got is not None and (got == value or str(got) == str(value))
    body = case_view.get("body")
    if where[1] is None:
        return body == value
    kind, name = where[1][0], where[1][1]
    if not isinstance(body, dict):
        return False
    if kind == "sub":
        return isinstance(body.get(name), dict) and body[name].get(where[1][2]) == value
    if kind == "prop":
        return name in body and body[name] == value and type(body[name]) is type(value)
    return isinstance(body.get(name), list) and value in body[name]


def view_of_case(case):
    from schemathesis.core import NOT_SET

    path = {k: (unquote(v) if isinstance(v, str) else v) for k, v in (case.path_parameters or {}).items()}
    return {"path": path, "query": dict(case.query or {}), "header": dict(case.headers or {}), "body": None if case.body is NOT_SET else case.body, "has_body": case.body is not NOT_SET}


def view_of_request(r, template="/items/{pid}"):
    parts = r["path"].split("/")
    view = {"path": {}, "query": {}, "header": {k: v for k, v in r["headers"]}, "body": None}
    if r["path"].startswith("/items/") and len(parts) >= 3:
        view["path"]["pid"] = unquote(parts[2])
    for k, v in parse_qsl(r["query"], keep_blank_values=True):
        view["query"].setdefault(k, []).append(v)
    if r["body"]:
        try:
            view["body"] = json.loads(r["body"])
        except ValueError:
            view["body"] = r["body"]
    return view


def classify_missing(item):
    return f"C17/example-never-sent:{item['placement']}"


def run_shard(spec, emit):
    import schemathesis
    from schemathesis.generation.hypothesis import examples as hyp_examples

    tier, seed, shard = spec["tier"], spec["seed"], spec["shard"]
    rng = random.Random(f"{seed}:C17:{shard}")
    n_docs = 250 if tier == "quick" else 3000
    deadline = time.monotonic() + (80 if tier == "quick" else 300)
    samples = 0
    if shard == 0:
        unsendable_combination_probe(emit, seed)
    engine_budget = 1 if tier == "quick" else 6
    unsendable_budget = 1 if tier == "quick" else 4
    for d in range(n_docs):
        if time.monotonic() > deadline:
            break
        version = rng.choice(["3.0", "3.0", "3.1", "2.0"])
        doc, expected, chosen = gen_document(rng, version)
        context = {"doc": doc, "placements": chosen}
        try:
            schema = schemathesis.openapi.from_dict(copy.deepcopy(doc))
            schema.base_url = "http://127.0.0.1:1"
            op = schema["/items/{pid}"]["POST"]
            plain = schema["/plain"]["GET"]
        except Exception as exc:
            emit.viol("C17/generated-document-not-loadable", f"{type(exc).__name__}: {exc}"[:200], context)
            continue
        # operation without examples: nothing to send
        try:
            plain_strategies = plain.get_strategies_from_examples()
        except Exception as exc:
            plain_strategies = None
            emit.viol("C17/example-extraction-crashed", f"{type(exc).__name__}: {exc}"[:200], context)
        emit.count("operations_without_examples")
        if plain_strategies:
            emit.viol("C17/cases-for-operation-without-examples", f"{len(plain_strategies)} strategies for GET /plain", context)
        try:
            strategies = op.get_strategies_from_examples()
            cases = [hyp_examples.generate_one(s) for s in strategies]
        except Exception as exc:
            emit.viol("C17/example-extraction-crashed", f"{type(exc).__name__}: {exc}"[:200], context)
            continue
        emit.count("cases_drawn", len(cases))
        emit.count("examples_expected", len(expected))
        views = [view_of_case(c) for c in cases]
        viols = []
        if not expected and cases:
            viols.append(("C17/cases-for-operation-without-examples", f"{len(cases)} cases although the document has no example for this operation"))
        for item in expected:
            if item.get("unsendable"):
                continue
            if not any(occurs(item, v) for v in views):
                viols.append((classify_missing(item), f"{item['where']} = {item['value']!r} ({item['placement']}) occurs in none of the {len(cases)} cases"))
        for case, view in zip(cases, views):
            if "pid" not in view["path"] or view["path"]["pid"] in (None, ""):
                viols.append(("C17/required-input-missing:path", f"path_parameters={case.path_parameters}"))
            if "q2" not in view["query"]:
                viols.append(("C17/required-input-missing:query", f"query={case.query}"))
            if not view["has_body"]:
                viols.append(("C17/required-input-missing:body", "body absent"))
            elif isinstance(view["body"], dict) and not any(i["where"] == ("body", None) for i in expected):
                # filled-in parts must be schema-valid
                body_schema = (doc["paths"]["/items/{pid}"]["post"].get("requestBody", {}).get("content", {}).get("application/json", {}).get("schema")) or next((p["schema"] for p in doc["paths"]["/items/{pid}"]["post"]["parameters"] if p.get("in") == "body"), None)
                if body_schema and not oas_schema.is_valid(view["body"], body_schema, doc=doc, version=version, mode="request"):
                    viols.append(("C17/filled-in-body-violates-schema", f"{view['body']!r:.120}"))
        sample = None
        if expected and samples < 2:
            samples += 1
            sample = {"version": version, "placements": chosen, "expected": [{"where": i["where"], "value": i["value"], "placement": i["placement"]} for i in expected][:6], "cases": len(cases)}
        emit.case(sig=f"{version}|{chosen}|{len(expected)}|{len(cases)}" if expected else None, sample=sample)
        for key, what in viols:
            emit.viol(key, what, context)
        # sample: the real examples phase
        has_unsendable = any(i.get("unsendable") for i in expected)
        if expected and ((engine_budget > 0 and rng.random() < 0.15) or (has_unsendable and unsendable_budget > 0)):
            if has_unsendable:
                unsendable_budget -= 1
            engine_budget -= 1
            from vmon.instr import engine

            result = engine.run_api(doc, {"phases": ["examples"], "seed": seed + 1}, timeout=100)
            if result.hung:
                emit.inconclusive("watchdog fired in examples run")
                continue
            emit.count("engine_runs")
            reqs = [r for r in result.test_requests()]
            rviews = [view_of_request(r) for r in reqs if r["path"].startswith("/items/")]
            errors = [e for e in result.events if e["type"] == "NonFatalError"]
            for item in expected:
                if item.get("unsendable"):
                    emit.count("unsendable_examples")
                    if not errors:
                        emit.viol("C17/unsendable-example-not-reported:engine", f"{item['where']} = {item['value']!r}: no error event for the operation", context)
                    continue
                # an error reported for the operation excuses only the example that cannot be sent
                if not any(occurs(item, v) for v in rviews) and (has_unsendable or not errors):
                    emit.viol(classify_missing(item) + ":engine", f"{item['where']} = {item['value']!r} not in any of {len(rviews)} examples-phase requests", context)
            if any(r["path"].startswith("/plain") for r in reqs):
                emit.viol("C17/request-for-operation-without-examples:engine", "GET /plain was requested in the examples phase", context)
            skipped = [e for e in result.events if e["type"] == "ScenarioFinished" and e["label"] == "GET /plain" and e["phase"] == "EXAMPLES"]
            if skipped and skipped[0]["status"] != "SKIP":
                emit.viol("C17/operation-without-examples-not-skipped:engine", f"status {skipped[0]['status']}", context)


def unsendable_combination_probe(emit, seed):
    """A fixed document: header X-H with examples [unsendable, good], query q1 with three examples. The combinations are
    formed round-robin, so two of the three contain the unsendable header and are dropped as a whole: their other
    examples are sendable but never sent (known finding, keyed by this mechanism)."""
    from vmon.instr import engine

    doc = {
        "openapi": "3.0.2",
        "info": {"title": "t", "version": "1"},
        "paths": {
            "/items": {
                "get": {
                    "parameters": [
                        {"name": "q1", "in": "query", "required": True, "schema": {"type": "string"}, "examples": {"a": {"value": "ex-a"}, "b": {"value": "ex-b"}, "c": {"value": "ex-c"}}},
                        {"name": "X-H", "in": "header", "schema": {"type": "string"}, "examples": {"bad": {"value": "line\nbreak"}, "good": {"value": "fine"}}},
                    ],
                    "responses": {"200": {"description": "ok"}},
                }
            }
        },
    }
    result = engine.run_api(doc, {"phases": ["examples"], "seed": seed + 1}, timeout=100)
    if result.hung:
        return
    emit.count("unsendable_combination_probes")
    sent = {v for r in result.test_requests() for k, v in parse_qsl(r["query"], keep_blank_values=True) if k == "q1"}
    for value in ("ex-a", "ex-b", "ex-c"):
        if value not in sent:
            emit.viol("C17/example-never-sent:combined-with-unsendable-header-example", f"q1 = {value!r} was only combined with the header example that cannot be sent; requests carried q1 in {sorted(sent)}", {"doc": doc})


def replay(case):
    return []

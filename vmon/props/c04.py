"""C04 — response conformance checks agree with the API documentation.

Monitor: the four real check functions are executed through `case.validate_response(response, checks=[X])` on real
`Response` objects for generated (document, response) pairs; the verdict (raised failure or not) is compared with an
independent reading of the document (vmon.oracles.conformance, which may ABSTAIN).
"""

from __future__ import annotations

import copy
import json
import random
import time

from vmon.oracles import conformance, oas_schema

ID = "C04"
LEVEL = "exploration"
RULE = (
    "documents: one operation whose `responses` map is a subset (size 1-3) of {200,201,404,2XX,4XX,default} with, per "
    "response, 0-2 media types out of {application/json, application/problem+json, text/plain, */*, application/*} "
    "carrying different schemas (required, nullable, writeOnly x1/x2, $ref, nested $ref, arrays), optional $ref'd "
    "responses and 0-2 documented headers; OpenAPI 2.0 (produces, x-nullable), 3.0 and 3.1. responses: status in "
    "{200,201,204,400,404,500} x Content-Type in {absent, documented, with parameters, upper-case, undocumented, "
    "malformed} x body in {valid instance, keyword-violating instance, malformed JSON, empty, non-JSON} x header "
    "presence/validity. Non-trivial = the reference expects a failure from at least one check or a wildcard/default/"
    "non-first-media path was taken; distinct = distinct (document shape, response shape, verdict vector)"
)
ASSUMPTIONS = [
    "responses are synthesised Response objects, not read from a socket (the engine path is covered by C05)",
    "the schema check is not judged when the response has no usable Content-Type, an undocumented or a non-JSON one",
    "headers documented with array/object schemas are not judged",
]
MIN_EVALUATIONS = {"quick": 30000, "thorough": 500000}
MIN_NONTRIVIAL = {"quick": 5000, "thorough": 50000}
REACH_FLOORS = {"expected_fail_status": 50, "expected_fail_content_type": 50, "expected_fail_headers": 50, "expected_fail_schema": 50}
SHARD_TIMEOUT = {"quick": 900, "thorough": 5400}

CHECK_NAMES = ["status_code_conformance", "content_type_conformance", "response_headers_conformance", "response_schema_conformance"]

# schema pool: (name, schema-for-3.0, valid instances, invalid instances)
SCHEMAS = {
    "S_id": ({"type": "object", "required": ["id"], "properties": {"id": {"type": "integer"}}}, [{"id": 1}, {"id": 0, "x": "y"}], [{"id": "1"}, {}, [], None]),
    "S_title": ({"type": "object", "required": ["title"], "properties": {"title": {"type": "string", "minLength": 2}}}, [{"title": "ab"}], [{"title": "a"}, {"id": 1}, 5]),
    "S_arr": ({"type": "array", "items": {"type": "string"}, "maxItems": 2}, [[], ["a", "b"]], [["a", "b", "c"], [1], {"a": 1}]),
    "S_nullable": ({"type": "object", "nullable": True, "properties": {"n": {"type": "integer", "minimum": 0}}}, [None, {"n": 0}, {}], [{"n": -1}, 3, "x"]),
    # `nullable: false` spelled out is the same as leaving it out
    "S_notnull": ({"type": "object", "nullable": False, "properties": {"n": {"type": "integer", "nullable": False}}}, [{"n": 1}, {}], [None, {"n": None}, 3]),
    # nullable / writeOnly below the top level (the conversion has to reach them also behind a $ref)
    "S_nested": (
        {
            "type": "object",
            "required": ["inner"],
            "properties": {
                "inner": {"type": "object", "nullable": True, "properties": {"k": {"type": "integer"}}},
                "list": {"type": "array", "items": {"type": "integer", "nullable": True}},
                "user": {"type": "object", "properties": {"name": {"type": "string"}, "password": {"type": "string", "writeOnly": True}}},
            },
        },
        [{"inner": None}, {"inner": {"k": 1}, "list": [1, None]}, {"inner": None, "user": {"name": "n"}}],
        [{"inner": 5}, {"inner": None, "list": ["x"]}, {"inner": None, "user": {"name": "n", "password": "p"}}],
    ),
    "S_write1": (
        {"type": "object", "required": ["id"], "properties": {"id": {"type": "integer"}, "password": {"type": "string", "writeOnly": True}}},
        [{"id": 1}],
        [{"id": 1, "password": "p"}, {"password": "p"}],
    ),
    "S_write2": (
        {
            "type": "object",
            "required": ["id", "secret"],
            "properties": {"id": {"type": "integer"}, "password": {"type": "string", "writeOnly": True}, "secret": {"type": "string", "writeOnly": True}},
        },
        [{"id": 1}],
        [{"id": 1, "password": "p"}, {"id": 1, "secret": "s"}, {"id": 1, "password": "p", "secret": "s"}],
    ),
    "S_ref": ({"$ref": "#/components/schemas/Item"}, [{"name": "n", "owner": {"uid": 1}}, {"name": "n"}], [{"name": 1}, {"name": "n", "owner": {"uid": "x"}}, {"owner": {"uid": 1}}]),
    "S_enum": ({"type": "string", "enum": ["a", "b"]}, ["a"], ["c", 1, None]),
    "S_num": ({"type": "number", "minimum": 0, "exclusiveMinimum": True}, [0.5, 3], [0, -1, "1"]),
}
SCHEMAS["S_nested_ref"] = ({"$ref": "#/components/schemas/Nested"}, SCHEMAS["S_nested"][1], SCHEMAS["S_nested"][2])
COMPONENT_SCHEMAS = {
    "Nested": copy.deepcopy(SCHEMAS["S_nested"][0]),
    "Item": {"type": "object", "required": ["name"], "properties": {"name": {"type": "string"}, "owner": {"$ref": "#/components/schemas/Owner"}}},
    "Owner": {"type": "object", "required": ["uid"], "properties": {"uid": {"type": "integer"}}},
}
MEDIA_TYPES = ["application/json", "application/problem+json", "text/plain", "*/*", "application/*", "application/json; charset=utf-8", "Application/Problem+JSON", "application/vnd.api+json;version=1"]
HEADERS = {
    "X-Rate": ({"required": True, "schema": {"type": "integer", "minimum": 1}}, ["5"], ["0", "abc"]),
    "X-Opt": ({"schema": {"type": "string", "enum": ["a", "b"]}}, ["a"], ["c"]),
    "X-Flag": ({"required": True, "schema": {"type": "boolean"}}, ["true", "false"], ["maybe"]),
    "X-Ref": ({"$ref": "#/components/headers/Limit"}, ["10"], ["ten"]),
    # every spelling of a number: plain, with a fraction, with an exponent (and no dot)
    "X-Ratio": ({"required": True, "schema": {"type": "number", "minimum": 0}}, ["0.5", "3", "2E3", "1e-05", "1.5e2"], ["-1", "1e", "abc"]),
}
COMPONENT_HEADERS = {"Limit": {"required": True, "schema": {"type": "integer"}}}
STATUS_KEYS = ["200", "201", "404", "2XX", "4XX", "default"]
STATUSES = [200, 201, 204, 400, 404, 500]


def adapt_schema(schema, version):
    """Rewrite the 3.0 pool schema for another dialect."""
    schema = copy.deepcopy(schema)

    def walk(node):
        if isinstance(node, dict):
            if version == "2.0":
                if "nullable" in node:
                    node["x-nullable"] = node.pop("nullable")
                if "writeOnly" in node:
                    node["x-writeOnly"] = node.pop("writeOnly")
                if "$ref" in node:
                    node["$ref"] = node["$ref"].replace("#/components/schemas/", "#/definitions/")
            elif version == "3.1":
                if node.pop("nullable", False) and "type" in node:
                    node["type"] = [node["type"], "null"]
                if node.get("exclusiveMinimum") is True:
                    node["exclusiveMinimum"] = node.pop("minimum")
            for value in list(node.values()):
                walk(value)
        elif isinstance(node, list):
            for value in node:
                walk(value)

    walk(schema)
    return schema


def gen_document(rng):
    version = rng.choice(["3.0", "3.0", "3.0", "3.1", "2.0"])
    keys = rng.sample(STATUS_KEYS, rng.choice([1, 2, 2, 3]))
    responses = {}
    shape = []
    components_responses = {}
    operation = {"responses": responses}
    schemas_used = {}
    for key in keys:
        definition = {"description": "d"}
        n_media = rng.choice([0, 1, 1, 2, 2])
        media = rng.sample(MEDIA_TYPES, n_media)
        schema_names = []
        if version == "2.0":
            if rng.random() < 0.8:
                name = rng.choice(list(SCHEMAS))
                definition["schema"] = adapt_schema(SCHEMAS[name][0], version)
                schema_names.append(name)
        else:
            if media:
                definition["content"] = {}
                for m in media:
                    entry = {}
                    if rng.random() < 0.85:
                        name = rng.choice(list(SCHEMAS))
                        entry["schema"] = adapt_schema(SCHEMAS[name][0], version)
                        schema_names.append(name)
                    else:
                        schema_names.append(None)
                    definition["content"][m] = entry
        header_names = rng.sample(list(HEADERS), rng.choice([0, 0, 1, 2]))
        if header_names:
            definition["headers"] = {}
            for h in header_names:
                hdef = copy.deepcopy(HEADERS[h][0])
                if version == "2.0":
                    if "$ref" in hdef:
                        hdef = copy.deepcopy(COMPONENT_HEADERS["Limit"])
                    flat = dict(hdef.get("schema", {}))
                    if hdef.get("required"):
                        flat["x-required"] = True
                    hdef = flat
                definition["headers"][h] = hdef
        by_ref = rng.random() < 0.25
        if by_ref:
            name = f"R{key}"
            components_responses[name] = definition
            responses[key] = {"$ref": ("#/responses/" if version == "2.0" else "#/components/responses/") + name}
        else:
            responses[key] = definition
        schemas_used[key] = (media, schema_names, header_names)
        shape.append(f"{key}:{len(media)}m:{','.join(str(s) for s in schema_names)}:{len(header_names)}h:{'ref' if by_ref else 'inl'}")
    if version == "2.0":
        doc = {
            "swagger": "2.0",
            "info": {"title": "t", "version": "1"},
            "paths": {"/r": {"get": operation}},
            "definitions": {k: adapt_schema(v, version) for k, v in COMPONENT_SCHEMAS.items()},
            "responses": components_responses,
        }
        produces = rng.choice([None, ["application/json"], ["application/json", "text/plain"], ["application/problem+json"]])
        if produces:
            if rng.random() < 0.5:
                operation["produces"] = produces
            else:
                doc["produces"] = produces
        shape.append(f"produces:{produces}")
    else:
        doc = {
            "openapi": "3.0.2" if version == "3.0" else "3.1.0",
            "info": {"title": "t", "version": "1"},
            "paths": {"/r": {"get": operation}},
            "components": {
                "schemas": {k: adapt_schema(v, version) for k, v in COMPONENT_SCHEMAS.items()},
                "responses": components_responses,
                "headers": copy.deepcopy(COMPONENT_HEADERS),
            },
        }
    return {"version": version, "doc": doc, "shape": f"{version}|" + "|".join(sorted(shape)), "used": schemas_used}


def gen_response(rng, docinfo):
    status = rng.choice(STATUSES)
    doc = docinfo["doc"]
    operation = doc["paths"]["/r"]["get"]
    found = conformance.find_response(operation["responses"], status)
    media, schema_names, header_names = ([], [], [])
    if found is not None:
        media, schema_names, header_names = docinfo["used"].get(found[1], ([], [], []))
    documented = conformance.documented_media_types(
        doc, operation, oas_schema.deref(doc, found[2]) if found else None, docinfo["version"]
    )
    # content type
    choice = rng.random()
    if choice < 0.12:
        content_type, ct_shape = None, "absent"
    elif choice < 0.62 and documented:
        base = rng.choice(documented)
        concrete = base.replace("*/*", "application/json").replace("application/*", "application/json")
        variant = rng.choice(["plain", "params", "upper"])
        content_type = {"plain": concrete, "params": concrete + "; charset=utf-8", "upper": concrete.upper()}[variant]
        ct_shape = f"documented-{variant}-{documented.index(base)}"
    elif choice < 0.8:
        content_type, ct_shape = rng.choice(["application/json", "application/problem+json"]), "json"
    elif choice < 0.93:
        content_type, ct_shape = rng.choice(["text/html", "application/xml", "text/plain"]), "other"
    else:
        content_type, ct_shape = rng.choice(["invalid", "json", "/"]), "malformed"
    # body
    pool = [n for n in schema_names if n] or list(SCHEMAS)
    name = rng.choice(pool)
    _, valid, invalid = SCHEMAS[name]
    kind = rng.choice(["valid", "valid", "invalid", "invalid", "malformed", "empty", "nonjson"])
    if kind == "valid":
        body = json.dumps(rng.choice(valid)).encode()
    elif kind == "invalid":
        body = json.dumps(rng.choice(invalid)).encode()
    elif kind == "malformed":
        body = b'{"id": '
    elif kind == "empty":
        body = b""
    else:
        body = b"\xff\xfehello"
    headers = {}
    hshape = []
    for h in HEADERS:
        documented_here = h in header_names
        r = rng.random()
        if documented_here and r < 0.35:
            hshape.append("absent")
            continue
        if not documented_here and r < 0.85:
            continue
        _, ok, bad = HEADERS[h]
        if rng.random() < 0.6:
            headers[h] = [rng.choice(ok)]
            hshape.append("ok")
        else:
            headers[h] = [rng.choice(bad)]
            hshape.append("bad")
    if content_type is not None:
        headers[rng.choice(["Content-Type", "content-type"])] = [content_type]
    return {
        "status": status,
        "headers": headers,
        "body": body.decode("latin-1"),
        "shape": f"{status}|ct={ct_shape}|body={kind}:{name}|h={','.join(hshape)}",
    }


def plan(tier, seed):
    nshards = 16 if tier == "quick" else 32
    return [{"tier": tier, "seed": seed, "shard": i, "nshards": nshards} for i in range(nshards)]


class Evaluator:
    def __init__(self):
        import requests
        import schemathesis
        from schemathesis.core.failures import Failure, FailureGroup
        from schemathesis.core.transport import Response
        from schemathesis.specs.openapi import checks

        self.schemathesis = schemathesis
        self.Response = Response
        self.FailureGroup = FailureGroup
        self.Failure = Failure
        self.checks = [getattr(checks, name) for name in CHECK_NAMES]
        self.prepared = requests.Request("GET", "http://127.0.0.1:1/r").prepare()

    def load(self, doc):
        schema = self.schemathesis.openapi.from_dict(copy.deepcopy(doc))
        schema.base_url = "http://127.0.0.1:1"
        return schema["/r"]["GET"]

    def verdicts(self, operation, resp):
        response = self.Response(
            status_code=resp["status"],
            headers=copy.deepcopy(resp["headers"]),
            content=resp["body"].encode("latin-1"),
            request=self.prepared,
            elapsed=0.01,
            verify=False,
        )
        case = operation.Case()
        out = []
        for check in self.checks:
            try:
                case.validate_response(response, checks=[check])
                out.append(("PASS", None))
            except self.FailureGroup as exc:
                out.append(("FAIL", sorted({type(e).__name__ for e in exc.exceptions})))
            except Exception as exc:
                out.append(("CRASH", f"{type(exc).__name__}: {exc}"))
        return out


def reference(docinfo, resp):
    doc, version = docinfo["doc"], docinfo["version"]
    operation = doc["paths"]["/r"]["get"]
    status, headers, body = resp["status"], resp["headers"], resp["body"].encode("latin-1")
    return [
        conformance.judge_status(doc, operation, status, version),
        conformance.judge_content_type(doc, operation, status, headers, version),
        conformance.judge_headers(doc, operation, status, headers, version),
        conformance.judge_schema(doc, operation, status, headers, body, version),
    ]


def compare(expected, got):
    viols = []
    for name, (exp, tags), (actual, detail) in zip(CHECK_NAMES, expected, got):
        short = name.replace("_conformance", "").replace("response_", "")
        if actual == "CRASH":
            # an exception that is not a check failure: "something is reported" (the engine turns it into an
            # error), which is only wrong for a response the reference considers conforming
            if exp == "PASS":
                viols.append((f"C04/{short}-check-crashed-on-conforming-response", f"{name} raised {detail}; reference={exp} {tags}"))
            continue
        if exp == conformance.ABSTAIN:
            continue
        if exp != actual:
            direction = "deviation-passed" if exp == "FAIL" else "conforming-response-failed"
            kws = [t for t in tags if t.startswith("kw-")]
            if direction == "deviation-passed" and kws == ["kw-not"]:
                # the only violated keyword is the ban on writeOnly properties
                which = "some-of-several-writeOnly-properties-present" if "several-writeonly-declared-some-present" in tags else "writeOnly-property-present"
                viols.append((f"C04/{short}-deviation-passed:{which}", f"{name}: reference={exp} {tags} product={actual} {detail}"))
                continue
            key_tags = [t for t in tags if not t.startswith("kw-") and t not in ("first", "valid-instance", "schema-violation")]
            viols.append(
                (
                    f"C04/{short}-{direction}:{'+'.join(key_tags)}",
                    f"{name}: reference={exp} {tags} product={actual} {detail}",
                )
            )
    return viols


def run_shard(spec, emit):
    tier, seed, shard = spec["tier"], spec["seed"], spec["shard"]
    rng = random.Random(f"{seed}:C04:{shard}")
    evaluator = Evaluator()
    n_docs = 300 if tier == "quick" else 6000
    per_doc = 15 if tier == "quick" else 25
    deadline = time.monotonic() + (100 if tier == "quick" else 300)
    samples = 0
    for _ in range(n_docs):
        if time.monotonic() > deadline:
            break
        docinfo = gen_document(rng)
        try:
            operation = evaluator.load(docinfo["doc"])
        except Exception as exc:
            emit.viol("C04/generated-document-not-loadable", f"{type(exc).__name__}: {exc}", {"doc": docinfo["doc"]})
            continue
        for _ in range(per_doc):
            resp = gen_response(rng, docinfo)
            expected = reference(docinfo, resp)
            got = evaluator.verdicts(operation, resp)
            viols = compare(expected, got)
            vector = ",".join(f"{e[0][0]}{g[0][0]}" for e, g in zip(expected, got))
            interesting = any(e[0] == "FAIL" for e in expected) or any(
                t in ("status-wildcard", "status-default", "non-first", "media-wildcard") for e in expected for t in e[1]
            )
            sample = None
            if interesting and samples < 2:
                samples += 1
                sample = {
                    "responses": docinfo["doc"]["paths"]["/r"]["get"]["responses"],
                    "response": {k: resp[k] for k in ("status", "headers", "body")},
                    "reference": [list(e) for e in expected],
                    "product": got,
                }
            emit.case(sig=f"{docinfo['shape']}#{resp['shape']}#{vector}" if interesting else None, sample=sample)
            for name, (exp, tags) in zip(("status", "content_type", "headers", "schema"), expected):
                if exp == "FAIL":
                    emit.count(f"expected_fail_{name}")
                elif exp == "ABSTAIN":
                    emit.count(f"abstain_{name}")
                for t in tags:
                    if t in ("status-wildcard", "status-default", "non-first", "media-wildcard"):
                        emit.count(f"path_{t}")
            for key, what in viols:
                emit.viol(key, what, {"doc": docinfo["doc"], "version": docinfo["version"], "response": resp, "used": None})


def replay(case):
    evaluator = Evaluator()
    docinfo = {"doc": case["doc"], "version": case["version"]}
    operation = evaluator.load(case["doc"])
    expected = reference(docinfo, case["response"])
    got = evaluator.verdicts(operation, case["response"])
    return [{"key": k, "what": w} for k, w in compare(expected, got)]

"""C07 — exactly the selected API operations are tested, in every phase.

Monitor: for every filter set the real selection machinery is observed at its outputs: `get_all_operations()`,
`schema.statistic`, the state machine's transitions, and - for a sample - the request log of full engine runs
(all phases), the real CLI's flags, and pytest parametrization / lazy fixtures in a pytest subprocess.
Oracle: vmon.oracles.selection over the raw document.
"""

from __future__ import annotations

import copy
import itertools
import json
import os
import random
import re
import subprocess
import sys
import tempfile
import time

from vmon.gen import docs
from vmon.oracles import selection

ID = "C07"
LEVEL = "exploration"
RULE = (
    "universe: 7 operations over 5 path items (one shared by 2 methods, one behind $ref, operations without tags / "
    "operationId, a deprecated one, links by operationId and operationRef). Every single filter of every kind (path/"
    "method/name/tag/operation-id x value/list/regex, include-by/exclude-by, deprecated) and every include x exclude pair "
    "is enumerated through schema.include/exclude and through the CLI's FilterArguments; random triples in thorough; a "
    "sample runs the whole engine (all phases, stateful included), the real CLI flags and pytest. Non-trivial = the filter "
    "set selects a proper non-empty subset; distinct = distinct (filter set, selected set)"
)
ASSUMPTIONS = [
    "requests are attributed to operations by matching the raw path against the (mutually unambiguous) templates",
    "coverage-phase requests with undocumented methods are not 'excluded operations'",
    "filter expressions whose pointer does not resolve are not judged",
]
MIN_EVALUATIONS = {"quick": 1000, "thorough": 7000}
MIN_NONTRIVIAL = {"quick": 400, "thorough": 2500}
REACH_FLOORS = {"engine_runs": 10, "requests_attributed": 200, "state_machines_built": 100, "cli_translations": 200}
SHARD_TIMEOUT = {"quick": 900, "thorough": 5400}


def universe():
    ok = docs.OK
    body = {"required": True, "content": {"application/json": {"schema": {"type": "object", "properties": {"n": {"type": "integer"}}, "required": ["n"], "additionalProperties": False}}}}
    doc = docs.base(
        {
            "/users": {
                "get": {"operationId": "listUsers", "tags": ["users", "admin"], "parameters": [docs.int_param("q", "query")], "responses": copy.deepcopy(ok)},
                "post": {
                    "operationId": "createUser",
                    "tags": ["users"],
                    "requestBody": {"$ref": "#/components/requestBodies/UserBody"},
                    "responses": {
                        "201": {
                            "description": "c",
                            "content": {"application/json": {"schema": {"type": "object"}}},
                            "links": {
                                "get": {"operationRef": "#/paths/~1users~1{id}/get", "parameters": {"id": "$response.body#/id"}},
                                "remove": {"operationId": "deleteUser", "parameters": {"id": "$response.body#/id"}},
                            },
                        }
                    },
                },
            },
            "/users/{id}": {
                "get": {"parameters": [docs.int_param("id", "path")], "responses": copy.deepcopy(ok)},
                "delete": {"operationId": "deleteUser", "deprecated": True, "tags": ["admin"], "parameters": [{"$ref": "#/components/parameters/AdminId"}], "responses": copy.deepcopy(ok)},
            },
            "/orders": {"$ref": "#/components/x-path-items/Orders"},
            "/orders/{oid}": {"get": {"operationId": "getOrder", "tags": ["orders"], "parameters": [docs.int_param("oid", "path")], "responses": copy.deepcopy(ok)}},
            "/status": {"get": {"operationId": "status", "responses": copy.deepcopy(ok)}},
            # differs from /status only by letter case: name and path filters are case-sensitive
            "/Status": {"get": {"operationId": "statusUpper", "responses": copy.deepcopy(ok)}},
        },
        components={
            "requestBodies": {"UserBody": dict(copy.deepcopy(body), **{"x-internal": True})},
            "parameters": {"AdminId": dict(docs.int_param("id", "path"), **{"x-scope": "admin"})},
            "x-path-items": {
                "Orders": {
                    "post": {
                        "operationId": "createOrder",
                        "tags": ["orders"],
                        "requestBody": copy.deepcopy(body),
                        "responses": {
                            "201": {
                                "description": "c",
                                "content": {"application/json": {"schema": {"type": "object"}}},
                                "links": {"get": {"operationId": "getOrder", "parameters": {"oid": "$response.body#/id"}}},
                            }
                        },
                    }
                }
            }
        },
    )
    return doc


RULES = [
    {"when": {"method": "POST", "path_regex": "^/users$"}, "then": {"status": 201, "json": {"id": 7}}},
    {"when": {"method": "POST", "path_regex": "^/orders$"}, "then": {"status": 201, "json": {"id": 9}}},
]

SINGLE_FILTERS = [
    {"path": "/users"},
    {"path": ["/users", "/status"]},
    {"path_regex": "^/users"},
    {"path_regex": "id"},
    {"method": "GET"},
    {"method": "post"},
    {"method": ["Delete", "POST"]},
    {"method_regex": "^(p|d)"},
    {"name": "GET /users/{id}"},
    {"name": ["POST /users", "POST /orders"]},
    {"name_regex": "orders"},
    {"name_regex": "^GET /status$"},
    {"name_regex": "/Stat"},
    {"path_regex": "^/status"},
    {"tag": "admin"},
    {"tag": ["orders", "users"]},
    {"tag_regex": "^a"},
    {"tag_regex": "min$"},
    {"tag_regex": "ser"},
    {"operation_id": "status"},
    {"operation_id": ["listUsers", "getOrder"]},
    {"operation_id_regex": "User$"},
    {"by": ["/deprecated", "==", True]},
    {"by": ["/tags/0", "==", "orders"]},
    {"by": ["/operationId", "!=", "status"]},
    # pointers that cross a reference inside the operation (shared request body / parameter components)
    {"by": ["/requestBody/x-internal", "==", True]},
    {"by": ["/parameters/0/x-scope", "==", "admin"]},
    {"deprecated": True},
    {"method": "GET", "path_regex": "users"},
    {"tag": "users", "method": "POST"},
]


def filter_to_kwargs(flt):
    """-> (positional func or None, kwargs) for FilterSet.include/exclude / schema.include/exclude."""
    from schemathesis.filters import expression_to_filter_function, is_deprecated

    kwargs = {k: v for k, v in flt.items() if k not in ("by", "deprecated")}
    func = None
    if "by" in flt:
        pointer, op, value = flt["by"]
        func = expression_to_filter_function(f"{pointer} {op} {json.dumps(value)}")
    if flt.get("deprecated"):
        func = is_deprecated
    return func, kwargs


def apply_api(schema, includes, excludes):
    for flt in includes:
        func, kwargs = filter_to_kwargs(flt)
        schema = schema.include(func, **kwargs) if func is not None else schema.include(**kwargs)
    for flt in excludes:
        func, kwargs = filter_to_kwargs(flt)
        schema = schema.exclude(func, **kwargs) if func is not None else schema.exclude(**kwargs)
    return schema


def cli_options(includes, excludes):
    """CLI flags for a filter set, or None when it is not expressible as independent options."""
    args = []
    seen_regex = {"include": 0, "exclude": 0}
    for side, filters in (("include", includes), ("exclude", excludes)):
        for flt in filters:
            if len(flt) != 1:
                return None
            (key, value), = flt.items()
            if key == "by":
                if f"--{side}-by" in args:
                    return None  # a single expression per side on the command line
                args += [f"--{side}-by", f"{value[0]} {value[1]} {json.dumps(value[2])}"]
            elif key == "deprecated":
                if side == "include":
                    return None
                args += ["--exclude-deprecated"]
            elif key.endswith("_regex"):
                seen_regex[side] += 1
                if seen_regex[side] > 1:
                    return None
                args += [f"--{side}-{key[:-6].replace('_', '-')}-regex", value]
            else:
                for v in value if isinstance(value, list) else [value]:
                    args += [f"--{side}-{key.replace('_', '-')}", v]
    return args


def cli_filter_set(args):
    """Translate CLI flags through the real click command definition, stopping before execution."""
    import click

    from schemathesis.cli.commands.run import filters as cli_filters
    from schemathesis.cli.commands.run.filters import FilterArguments

    params = {}
    it = iter(args)
    for flag in it:
        if flag == "--exclude-deprecated":
            params["exclude_deprecated"] = True
            continue
        value = next(it)
        name = flag[2:].replace("-", "_")
        if name.endswith("_regex") or name.endswith("_by"):
            params[name] = value
        else:
            params.setdefault(name, []).append(value)
    return FilterArguments(
        **{
            **{f"{side}_{kind}": params.get(f"{side}_{kind}", []) for side in ("include", "exclude") for kind in ("path", "method", "name", "tag", "operation_id")},
            **{f"{side}_{kind}_regex": params.get(f"{side}_{kind}_regex") for side in ("include", "exclude") for kind in ("path", "method", "name", "tag", "operation_id")},
            "include_by": params.get("include_by"),
            "exclude_by": params.get("exclude_by"),
            "exclude_deprecated": params.get("exclude_deprecated", False),
        }
    ).into()


def plan(tier, seed):
    nshards = 16 if tier == "quick" else 32
    return [{"tier": tier, "seed": seed, "shard": i, "nshards": nshards} for i in range(nshards)]


def gen_filter_sets(tier, seed):
    rng = random.Random(f"{seed}:C07")
    sets = [([], [])]
    for f in SINGLE_FILTERS:
        sets.append(([f], []))
        sets.append(([], [f]))
    for a, b in itertools.product(SINGLE_FILTERS, repeat=2):
        if a != b:
            sets.append(([a], [b]))
    for a, b in itertools.combinations(SINGLE_FILTERS, 2):
        sets.append(([a, b], []))
        sets.append(([], [a, b]))
    n_random = 300 if tier == "quick" else 8000
    for _ in range(n_random):
        inc = rng.sample(SINGLE_FILTERS, rng.choice([0, 1, 1, 2]))
        exc = [f for f in rng.sample(SINGLE_FILTERS, rng.choice([0, 1, 2])) if f not in inc]
        sets.append((inc, exc))
    return sets


def template_of(doc, path):
    for template in doc["paths"]:
        if re.fullmatch(re.sub(r"\{[^}]+\}", "[^/]+", template), path):
            return template
    return None


class Observer:
    def __init__(self):
        import schemathesis
        from schemathesis.core.result import Ok

        self.schemathesis = schemathesis
        self.Ok = Ok
        self.doc = universe()

    def observe(self, includes, excludes, via):
        """-> dict(labels, stat, transitions) from the real code."""
        import click

        from schemathesis.core.errors import IncorrectUsage

        schema = self.schemathesis.openapi.from_dict(copy.deepcopy(self.doc))
        try:
            if via == "api":
                schema = apply_api(schema, includes, excludes)
            elif via == "api-forked":
                # the same selection reached through a filtered base schema from which sibling schemas are derived as
                # well (before and after): derivations must not leak into each other or into the base
                first_inc, first_exc = (includes[:1], []) if includes else ([], excludes[:1])
                base = apply_api(schema, first_inc, first_exc)
                sibling_before = base.exclude(method="DELETE").include(path_regex="^/users")
                list(sibling_before.get_all_operations())
                schema = apply_api(base, includes[len(first_inc):], excludes[len(first_exc):])
                sibling_after = base.exclude(method="GET")
                list(sibling_after.get_all_operations())
                self.base = (base, first_inc, first_exc)
            else:
                args = cli_options(includes, excludes)
                if args is None:
                    return None
                schema.filter_set = cli_filter_set(args)
        except IncorrectUsage as exc:
            if "already exists" in str(exc):
                return None
            raise
        except click.UsageError:
            # e.g. the same value on the include and on the exclude side: rejected by the CLI, nothing to observe
            return None
        labels = []
        errors = []
        for result in schema.get_all_operations():
            if isinstance(result, self.Ok):
                labels.append(result.ok().label)
            else:
                errors.append(str(result.err())[:100])
        stat = schema.statistic
        out = {
            "labels": labels,
            "errors": errors,
            "ops": (stat.operations.selected, stat.operations.total),
            "links": (stat.links.selected, stat.links.total),
            "schema": schema,
        }
        try:
            machine = schema.as_state_machine()
            transitions = []
            for source, data in machine._transitions.operations.items():
                for link in data.outgoing:
                    transitions.append((source, link.target.label))
            out["transitions"] = transitions
        except Exception as exc:
            out["transitions_error"] = f"{type(exc).__name__}: {exc}"[:200]
        return out


def judge_static(doc, includes, excludes, obs):
    viols = []
    ref = selection.selected(doc, includes, excludes)
    if ref is None:
        return None, []
    expected, all_labels = ref
    got = obs["labels"]
    if sorted(got) != sorted(expected):
        extra = sorted(set(got) - expected)
        missing = sorted(expected - set(got))
        if extra:
            viols.append(("C07/unselected-operation-offered", f"offered although not selected: {extra}"))
        if missing:
            viols.append(("C07/selected-operation-not-offered", f"selected but not offered: {missing}"))
        if len(got) != len(set(got)):
            viols.append(("C07/operation-offered-twice", f"{got}"))
    if obs["ops"] != (len(expected), len(all_labels)):
        viols.append(("C07/statistic-operations-mismatch", f"reported {obs['ops']}, reference {(len(expected), len(all_labels))}"))
    all_links = selection.links(doc)
    sel_links = [l for l in all_links if l[0] in expected and l[1] in expected]
    if obs["links"] != (len(sel_links), len(all_links)):
        viols.append(("C07/statistic-links-mismatch", f"reported {obs['links']}, reference {(len(sel_links), len(all_links))}"))
    if "transitions" in obs:
        for source, target in obs["transitions"]:
            if target not in expected or source not in expected:
                viols.append(("C07/state-machine-transition-touches-unselected-operation", f"{source} -> {target}"))
        expected_transitions = sorted(sel_links)
        if sorted(obs["transitions"]) != expected_transitions:
            viols.append(("C07/state-machine-transitions-mismatch", f"got {sorted(obs['transitions'])}, reference {expected_transitions}"))
    return expected, viols


def engine_run(doc, includes, excludes, seed, via_cli):
    from vmon.instr import engine

    if via_cli:
        args = cli_options(includes, excludes)
        if args is None:
            return None
        return engine.run_cli(doc, args + ["--max-examples", "3", "--seed", str(seed), "--generation-database", "none", "--mode", "all", "--suppress-health-check", "all"], rules=RULES, timeout=150)
    return engine.run_api(
        doc,
        {"phases": ["examples", "coverage", "fuzzing", "stateful"], "max_examples": 3, "seed": seed, "modes": ["positive", "negative"], "workers": 2},
        rules=RULES,
        timeout=150,
        filter_setup=lambda schema: apply_api(schema, includes, excludes),
    )


def judge_run(doc, expected, result, via_cli):
    viols = []
    documented = {op[0]: op for op in selection.operations(doc)}
    hit = {}
    n = 0
    for r in result.test_requests():
        template = template_of(doc, r["path"])
        if template is None:
            continue
        label = f"{r['method'].upper()} {template}"
        if label not in documented:
            continue  # undocumented method on a documented path: not an "excluded operation"
        n += 1
        hit[label] = hit.get(label, 0) + 1
        if label not in expected:
            phase = "?"
            viols.append(("C07/request-sent-to-unselected-operation", f"{r['method']} {r['raw_path'][:80]} -> {label}"))
    reported = {e.get("label") for e in result.events if e["type"] in ("ScenarioFinished", "NonFatalError")}
    for label in expected:
        if label not in hit and label not in reported:
            viols.append(("C07/selected-operation-never-exercised", f"{label}: no request and no event"))
    if via_cli:
        m = re.search(r"Selected:\s*(\d+)/(\d+)", result.stdout)
        if m and (int(m.group(1)), int(m.group(2))) != (len(expected), len(documented)):
            viols.append(("C07/cli-selected-count-mismatch", f"CLI says {m.group(0)}, reference {len(expected)}/{len(documented)}"))
    return viols, n


PYTEST_TEMPLATE = '''
import json, pytest, schemathesis, sys
from hypothesis import settings, HealthCheck
settings.register_profile("verif", max_examples=2, deadline=None, database=None, suppress_health_check=list(HealthCheck))
settings.load_profile("verif")
sys.path.insert(0, {verif!r})
from vmon.props import c07
DOC = c07.universe()
INC = json.loads({inc!r}); EXC = json.loads({exc!r})
raw = schemathesis.openapi.from_dict(DOC)
schema = c07.apply_api(raw, INC, EXC)
SEEN = []

@schema.parametrize()
def test_direct(case):
    SEEN.append(("direct", case.operation.label))

@pytest.fixture
def api_schema():
    return schemathesis.openapi.from_dict(DOC)

lazy = schemathesis.pytest.from_fixture("api_schema")
lazy = c07.apply_api(lazy, INC, EXC)

@lazy.parametrize()
def test_lazy(case):
    SEEN.append(("lazy", case.operation.label))

def test_zz_dump():
    print("@@SEEN" + json.dumps(sorted(set(SEEN))))
'''


def pytest_run(includes, excludes, scratch):
    path = os.path.join(scratch, "test_sel.py")
    with open(path, "w") as fd:
        fd.write(PYTEST_TEMPLATE.format(verif=os.path.dirname(os.path.dirname(os.path.dirname(os.path.abspath(__file__)))), inc=json.dumps(includes), exc=json.dumps(excludes)))
    proc = subprocess.run(
        ["/venv/bin/python", "-m", "pytest", "-q", "-s", "-p", "no:cacheprovider", path],
        cwd=scratch,
        capture_output=True,
        text=True,
        timeout=300,
        env=dict(os.environ, SCHEMATHESIS_VERIF="1"),
    )
    seen = None
    for line in proc.stdout.splitlines():
        if "@@SEEN" in line:
            seen = json.loads(line.split("@@SEEN", 1)[1])
    collected = set(re.findall(r"test_(direct|lazy)\[([A-Z]+ [^\]]+)\]", proc.stdout))
    return seen, proc.stdout[-1500:]


def run_shard(spec, emit):
    tier, seed, shard, nshards = spec["tier"], spec["seed"], spec["shard"], spec["nshards"]
    observer = Observer()
    doc = observer.doc
    sets = gen_filter_sets(tier, seed)
    mine = [s for i, s in enumerate(sets) if i % nshards == shard]
    deadline = time.monotonic() + (90 if tier == "quick" else 300)
    rng = random.Random(f"{seed}:C07:{shard}")
    samples = 0
    engine_budget = 4 if tier == "quick" else 40
    pytest_budget = 1 if tier == "quick" else 6
    for includes, excludes in mine:
        if time.monotonic() > deadline:
            emit.count("sets_skipped_budget")
            continue
        for via in ("api", "cli", "api-forked"):
            if via == "api-forked" and not (includes or excludes):
                continue
            try:
                obs = observer.observe(includes, excludes, via)
            except Exception as exc:
                if via != "api-forked":
                    raise
                emit.count("forked_not_applicable")  # e.g. the distractor repeats a filter of the set (rejected)
                continue
            if obs is None:
                continue
            if via == "api-forked":
                emit.count("forked_derivations")
                base, first_inc, first_exc = observer.base
                base_ref = selection.selected(doc, first_inc, first_exc)
                if base_ref is not None:
                    base_labels = sorted(r.ok().label for r in base.get_all_operations() if isinstance(r, observer.Ok))
                    if base_labels != sorted(base_ref[0]):
                        emit.viol("C07/base-schema-selection-changed-by-derived-schemas", f"base offers {base_labels}, reference {sorted(base_ref[0])}", {"include": includes, "exclude": excludes, "via": via})
            expected, viols = judge_static(doc, includes, excludes, obs)
            if expected is None:
                emit.count("not_judged")
                continue
            emit.count({"cli": "cli_translations", "api": "api_filter_sets", "api-forked": "api_forked_filter_sets"}[via])
            if "transitions" in obs:
                emit.count("state_machines_built")
            nontrivial = 0 < len(expected) < 8
            sample = None
            if nontrivial and samples < 2 and via == "api":
                samples += 1
                sample = {"include": includes, "exclude": excludes, "selected": sorted(expected), "statistic": {"ops": obs["ops"], "links": obs["links"]}}
            emit.case(sig=f"{via}|{includes}|{excludes}|{sorted(expected)}" if nontrivial else None, sample=sample)
            for key, what in viols:
                emit.viol(key + (":cli" if via == "cli" else ":forked" if via == "api-forked" else ""), what, {"include": includes, "exclude": excludes, "via": via})
        # sampled full runs
        ref = selection.selected(doc, includes, excludes)
        if ref and 0 < len(ref[0]) < 8 and engine_budget > 0 and rng.random() < 0.5:
            engine_budget -= 1
            via_cli = rng.random() < 0.4
            result = engine_run(doc, includes, excludes, seed + 1, via_cli)
            rejected = result is not None and via_cli and not result.events and (result.exit_code == 2 or (result.harness_error or "").startswith("IncorrectUsage"))
            if rejected:
                # the command line refused the combination (usage error, or the same filter given twice: `post` and `POST`)
                emit.count("cli_rejected_filter_combination")
            elif result is not None and not result.hung:
                viols, n = judge_run(doc, ref[0], result, via_cli)
                emit.count("engine_runs")
                emit.count("requests_attributed", n)
                emit.case(sig=f"run|{via_cli}|{includes}|{excludes}|{n}")
                for key, what in viols:
                    emit.viol(key, what, {"include": includes, "exclude": excludes, "via": "cli-run" if via_cli else "api-run"})
            elif result is not None:
                emit.inconclusive("watchdog fired in engine run")
        if ref and 0 < len(ref[0]) < 8 and pytest_budget > 0 and rng.random() < 0.3:
            pytest_budget -= 1
            scratch = tempfile.mkdtemp(prefix="verif-c07-")
            try:
                seen, tail = pytest_run(includes, excludes, scratch)
            finally:
                import shutil

                shutil.rmtree(scratch, ignore_errors=True)
            if seen is None:
                emit.inconclusive("pytest subprocess produced no observation: " + tail[-300:])
            else:
                emit.count("pytest_runs")
                for kind in ("direct", "lazy"):
                    got = {label for k, label in seen if k == kind}
                    if got != ref[0]:
                        emit.viol(f"C07/pytest-{kind}-parametrization-mismatch", f"tested {sorted(got)}, reference {sorted(ref[0])}", {"include": includes, "exclude": excludes, "via": "pytest"})


def replay(case):
    observer = Observer()
    out = []
    for via in ("api", "cli"):
        obs = observer.observe(case["include"], case["exclude"], via)
        if obs is None:
            continue
        _, viols = judge_static(observer.doc, case["include"], case["exclude"], obs)
        out += [{"key": k, "what": w} for k, w in viols]
    return out

"""C11 — the engine event stream is a well-formed, properly nested protocol.

Monitor: the complete sequence yielded by `from_schema(...).execute()` is consumed by the harness; an automaton
written from the statement (vmon.oracles.protocol) judges it. Workload: documents x API behaviours x engine
configurations x (a) every stop index of a run (`stream.stop()` after event k, for every k), (b) KeyboardInterrupt
thrown into the stream at every k, (c) delays at the guarded schedule points (incl. the window between the
consumer's `queue.Empty` and its liveness test), (d) seeded jitter under a 1 microsecond switch interval,
(e) single injected worker faults.
"""

from __future__ import annotations

import random
import sys
import time

from vmon.gen import docs
from vmon.instr import engine
from vmon.oracles import protocol

ID = "C11"
LEVEL = "exploration"
RULE = (
    "runs = (document in {one, two_linked, four, invalid_op, empty, eight}) x (behaviour in {ok, 500 on k-th request, "
    "connection closed}) x (phases subset, workers 1/2/4, max_failures, continue_on_failure, unique_inputs) x plan; "
    "plans: none | stop after event k for EVERY k of the unperturbed run | KeyboardInterrupt at every k | one delay at "
    "one schedule point hit | seeded jitter | one injected fault. Non-trivial = the run was stopped/interrupted/"
    "perturbed/faulted or contains a failure; distinct = distinct (configuration, plan, event-type sequence) signatures"
)
ASSUMPTIONS = [
    "interleavings reached = delays at the listed schedule points + OS pre-emption at a 1 us switch interval",
    "a watchdog expiry is inconclusive, never a violation",
]
MIN_EVALUATIONS = {"quick": 300, "thorough": 2500}
MIN_NONTRIVIAL = {"quick": 150, "thorough": 1500}
REACH_FLOORS = {"runs_stopped": 50, "runs_interrupted": 50, "runs_delayed": 20, "runs_faulted": 10}
SHARD_TIMEOUT = {"quick": 900, "thorough": 5400}

BASES = [
    # (doc, cfg, rules-name)
    ("one", {"phases": ["fuzzing"], "max_examples": 3}, "ok"),
    ("one", {"phases": ["examples", "coverage", "fuzzing", "stateful"], "max_examples": 2}, "fail2"),
    ("two_linked", {"phases": ["fuzzing", "stateful"], "max_examples": 3}, "ok"),
    ("two_linked", {"phases": ["stateful"], "max_examples": 3}, "fail_get"),
    ("four", {"phases": ["fuzzing"], "max_examples": 2, "workers": 2}, "ok"),
    ("four", {"phases": ["coverage", "fuzzing"], "max_examples": 2, "workers": 4}, "fail2"),
    ("four", {"phases": ["fuzzing"], "max_examples": 2, "workers": 2, "max_failures": 1}, "fail_all"),
    ("four", {"phases": ["fuzzing"], "max_examples": 3, "continue_on_failure": True}, "fail2"),
    ("invalid_op", {"phases": ["coverage", "fuzzing"], "max_examples": 2, "workers": 2}, "ok"),
    ("empty", {"phases": ["examples", "coverage", "fuzzing", "stateful"], "max_examples": 2}, "ok"),
    ("eight", {"phases": ["fuzzing"], "max_examples": 2, "workers": 4, "max_failures": 1}, "fail_all"),
    ("eight", {"phases": ["fuzzing"], "max_examples": 2, "workers": 4, "max_failures": 2}, "fail_some"),
    ("four", {"phases": ["fuzzing"], "max_examples": 2, "unique_inputs": True}, "close3"),
    ("two_linked", {"phases": ["fuzzing", "stateful"], "max_examples": 3, "max_failures": 1}, "fail_get"),
]

RULES = {
    "ok": [],
    "fail2": [{"when": {"path_regex": "^/(items|a|b|c)", "nth": 2}, "then": {"status": 500, "json": {}}}],
    "fail_all": [{"when": {"path_regex": "^/(a|b|c|r\\d)"}, "then": {"status": 500, "json": {}}}],
    "fail_some": [{"when": {"path_regex": "^/r[0246]"}, "then": {"status": 500, "json": {}}}],
    "fail_get": [{"when": {"method": "GET", "path_regex": "^/users/"}, "then": {"status": 500, "json": {}}}],
    "close3": [{"when": {"path_regex": "^/(a|b|c)", "nth": 3}, "then": {"close": True}}],
}

DELAY_POINTS = [
    "unit.producer.next",
    "unit.worker.create_test",
    "unit.worker.put",
    "unit.consumer.got",
    "unit.consumer.empty",
    "unit.case.enter",
    "transport.send",
    "control.count_failure",
    "stateful.consumer.empty",
    "stateful.put",
    "stateful.step",
]
FAULT_POINTS = ["unit.worker.create_test", "unit.case.enter", "transport.send", "checks.run", "stateful.step", "unit.producer.next"]


def plan(tier, seed):
    nshards = 16 if tier == "quick" else 32
    return [{"tier": tier, "seed": seed, "shard": i, "nshards": nshards} for i in range(nshards)]


def rules_for(name):
    return docs.LINK_RULES + RULES[name]


def execute(case):
    """case: {"base": idx, "kind": ..., ...} -> (RunResult, interrupted_by_consumer)"""
    doc_name, cfg, rules_name = BASES[case["base"]]
    cfg = dict(cfg, seed=case.get("seed", 1))
    kwargs = {}
    kind = case["kind"]
    if kind == "stop":
        kwargs["stop_after"] = case["k"]
    elif kind == "interrupt":
        kwargs["interrupt_after"] = case["k"]
    elif kind == "delay":
        kwargs["plan"] = {case["point"]: [{"hit": case["hit"], "action": "delay", "arg": case["delay"]}]}
    elif kind == "jitter":
        kwargs["jitter"] = {"points": None, "p": 0.3, "delays": [0, 0, 0.001, 0.02, 0.12]}
        kwargs["seed"] = case["jseed"]
    elif kind == "fault":
        kwargs["plan"] = {case["point"]: [{"hit": case["hit"], "action": "raise"}]}
    elif kind == "delay_stop":
        kwargs["plan"] = {case["point"]: [{"hit": case["hit"], "action": "delay", "arg": case["delay"]}]}
        kwargs["stop_after"] = case["k"]
    result = engine.run_api(docs.DOCS[doc_name](), cfg, rules=rules_for(rules_name), timeout=60, **kwargs)
    return result, kind in ("stop", "interrupt", "delay_stop")


def classify(key, case, result, what=""):
    """Refine the automaton's key with the structural facts of the run that produced it."""
    doc_name, cfg, _ = BASES[case["base"]]
    events = [e for e in result.events if e["type"] in protocol.ENGINE_EVENT_TYPES]
    if case["kind"] == "interrupt":
        # which yield the KeyboardInterrupt was delivered at
        at = events[case["k"]]["type"] if case["k"] < len(events) else "?"
        if key in ("C11/phase-unclosed-at-end", "C11/suite-unclosed-at-end", "C11/suite-unclosed-at-phase-end", "C11/stream-raised", "C11/finish-event-count"):
            return f"{key}:interrupt-delivered-at-yield-of-{at}"
    if key in ("C11/scenario-unclosed-at-suite-end", "C11/scenario-unclosed-at-end"):
        bad_scenarios = sum(1 for e in events if e["type"] == "ScenarioFinished" and e["status"] in ("FAILURE", "ERROR"))
        limit = cfg.get("max_failures")
        if limit is not None and bad_scenarios >= limit:
            return key + ":failure-limit-reached"
        if any(f["point"].endswith("consumer.empty") and f["action"] == "delay" for f in result.fired):
            return key + ":after-delay-between-empty-and-liveness-test"
    if case["kind"] == "fault":
        if "STATEFUL" in what and key.endswith("-status-better-than-worst-scenario"):
            # whatever raised inside the step, Hypothesis cannot reproduce a one-shot error and reports Flaky
            return key + ":one-shot-error-in-stateful-step"
        return key + ":after-fault@" + case["point"]
    return key


def check_case(case):
    result, consumer_interrupted = execute(case)
    if result.hung:
        return result, None, "watchdog fired"
    if result.harness_error and case["kind"] != "fault":
        return result, [(classify("C11/stream-raised", case, result, result.harness_error), result.harness_error)], None
    viols = protocol.check(result.events, interrupted_by_consumer=consumer_interrupted)
    if result.harness_error:
        viols.append(("C11/stream-raised", result.harness_error))
    return result, [(classify(k, case, result, w), w) for k, w in viols], None


def gen_cases(tier, seed, shard, nshards):
    rng = random.Random(f"{seed}:C11:{shard}")
    cases = []
    for base_idx in range(len(BASES)):
        cases.append({"base": base_idx, "kind": "none", "seed": 1 + seed})
    my = [c for i, c in enumerate(cases) if i % nshards == shard]
    return my, rng


def run_shard(spec, emit):
    tier, seed, shard, nshards = spec["tier"], spec["seed"], spec["shard"], spec["nshards"]
    sys.setswitchinterval(1e-6)
    rng = random.Random(f"{seed}:C11:{shard}")
    budget = 75 if tier == "quick" else 300
    deadline = time.monotonic() + budget
    samples = 0

    def handle(case):
        nonlocal samples
        result, viols, inconclusive = check_case(case)
        if inconclusive:
            emit.inconclusive(f"{inconclusive}: {case}")
            return result
        types = ",".join(e["type"][:2] + e["type"][-2:] + (e.get("status") or "")[:2] for e in result.events)
        nontrivial = case["kind"] != "none" or any(e.get("status") in ("FAILURE", "ERROR") for e in result.events)
        plan_sig = {k: v for k, v in case.items() if k not in ("seed",)}
        sample = None
        if nontrivial and samples < 2:
            samples += 1
            sample = {"case": case, "base": BASES[case["base"]], "events": [(e["type"], e.get("phase"), e.get("status")) for e in result.events]}
        emit.case(sig=f"{plan_sig}|{types}" if nontrivial else None, sample=sample)
        emit.count("events_seen", len(result.events))
        emit.count({"stop": "runs_stopped", "interrupt": "runs_interrupted", "delay": "runs_delayed", "jitter": "runs_jitter", "fault": "runs_faulted", "none": "runs_plain", "delay_stop": "runs_delayed"}[case["kind"]])
        emit.distinct("interleaving", hash(result.signature))
        for p in {h[2] for h in result.history}:
            emit.count("point:" + p)
        for key, what in viols:
            emit.viol(key, what, {"case": case, "base": BASES[case["base"]], "events": [(e["type"], e.get("phase"), e.get("status"), e.get("label")) for e in result.events][-40:], "fired": result.fired})
        return result

    # each shard owns some bases and enumerates every stop index for them
    owned = [i for i in range(len(BASES)) if i % nshards == shard % len(BASES) or (nshards > len(BASES) and i == shard % len(BASES))]
    if tier == "quick":
        owned = [shard % len(BASES)]
    for base_idx in owned:
        base_case = {"base": base_idx, "kind": "none", "seed": 1 + seed}
        result = handle(base_case)
        n = len(result.events)
        hits = {}
        for _, _, name in result.history:
            hits[name] = hits.get(name, 0) + 1
        todo = []
        for k in range(n):
            todo.append(dict(base_case, kind="stop", k=k))
            if k < n - 1:
                # after the final event there is no engine code left to interrupt
                todo.append(dict(base_case, kind="interrupt", k=k))
        for point in DELAY_POINTS:
            for hit in range(1, min(hits.get(point, 0), 3 if tier == "quick" else 6) + 1):
                todo.append(dict(base_case, kind="delay", point=point, hit=hit, delay=0.25))
        # last hits of the consumer-side points are the ones that open the end-of-phase window
        for point in ("unit.consumer.empty", "stateful.consumer.empty"):
            for hit in range(max(1, hits.get(point, 0) - 2), hits.get(point, 0) + 3):
                todo.append(dict(base_case, kind="delay", point=point, hit=hit, delay=0.3))
        for point in FAULT_POINTS:
            for hit in range(1, min(hits.get(point, 0), 2 if tier == "quick" else 4) + 1):
                todo.append(dict(base_case, kind="fault", point=point, hit=hit))
        for j in range(6 if tier == "quick" else 40):
            todo.append(dict(base_case, kind="jitter", jseed=rng.randrange(10**6)))
        for j in range(4 if tier == "quick" else 40):
            todo.append(dict(base_case, kind="delay_stop", point=rng.choice(DELAY_POINTS), hit=rng.randint(1, 3), delay=0.1, k=rng.randrange(max(1, n))))
        if tier == "quick":
            # keep the exhaustive stop enumeration, sample the rest to fit the budget
            stops = [c for c in todo if c["kind"] in ("stop", "interrupt")]
            rest = [c for c in todo if c["kind"] not in ("stop", "interrupt")]
            rng.shuffle(rest)
            todo = stops + rest
        for case in todo:
            if time.monotonic() > deadline:
                emit.count("cases_skipped_budget")
                continue
            handle(case)


def replay(case):
    sys.setswitchinterval(1e-6)
    for _ in range(5):
        _, viols, _ = check_case(case["case"])
        if viols:
            return [{"key": k, "what": w} for k, w in viols]
    return []

"""C13 — a fixed seed reproduces the same sequence of requests.

Monitor: the request log of the scripted (deterministic) API for repeated runs of the real engine: two fresh
processes with different PYTHONHASHSEED, two runs inside one process, and 1 vs 2 vs 4 workers under seeded jitter.
Oracle: sequence equality per phase (one worker) / per-operation multiset equality in the unit phases (n workers),
equal failure sets; different seeds must be able to differ (sanity of the monitor).
"""

from __future__ import annotations

import copy
import json
import os
import random
import subprocess
import sys
import time

from vmon.gen import docs

ID = "C13"
LEVEL = "exploration"
RULE = (
    "comparison groups = document (plain ints, patterns/formats that force filtered draws, enums, bodies, links, examples, "
    "multi-file with relative $ref) x phases (each alone and together) x modes (positive, negative, both) x seed; each group "
    "runs: 2 fresh processes with the same seed and different PYTHONHASHSEED, 2 runs in one process, 1 vs 2 vs 4 workers "
    "with seeded schedule jitter, and a different seed. Non-trivial = a group whose runs sent >= 5 requests; distinct = "
    "distinct (document, configuration, request-sequence digest)"
)
ASSUMPTIONS = [
    "the API is deterministic and (for the worker comparison) stateless",
    "per-case id header, User-Agent and Host (port differs per run) are excluded from the comparison",
]
MIN_EVALUATIONS = {"quick": 20, "thorough": 120}
MIN_NONTRIVIAL = {"quick": 15, "thorough": 80}
REACH_FLOORS = {"fresh_process_pairs": 10, "same_process_pairs": 5, "worker_comparisons": 5, "different_seed_pairs_that_differ": 1}
SHARD_TIMEOUT = {"quick": 900, "thorough": 5400}

HERE = os.path.dirname(os.path.dirname(os.path.dirname(os.path.abspath(__file__))))


def doc_rich():
    """Patterns / formats / nested bodies: draws are filtered, so an unseeded draw shows up as a difference."""
    ok = copy.deepcopy(docs.OK)
    return docs.base(
        {
            "/p/{slug}": {
                "get": {
                    "operationId": "getP",
                    "parameters": [
                        {"name": "slug", "in": "path", "required": True, "schema": {"type": "string", "pattern": "^[a-z]{3,8}$"}},
                        {"name": "when", "in": "query", "required": True, "schema": {"type": "string", "format": "date"}},
                        {"name": "tags", "in": "query", "schema": {"type": "array", "items": {"type": "string", "minLength": 2, "maxLength": 5}, "minItems": 1}},
                        {"name": "X-Trace", "in": "header", "required": True, "schema": {"type": "string", "pattern": "^[A-F0-9]{6}$"}},
                    ],
                    "responses": ok,
                }
            },
            # every string format the product has a strategy of its own for, and generated credentials
            "/f/{uid}": {
                "post": {
                    "operationId": "postF",
                    "security": [{"Bearer": []}, {"Basic": []}],
                    "parameters": [
                        {"name": "uid", "in": "path", "required": True, "schema": {"type": "string", "format": "uuid"}},
                        {"name": "blob", "in": "query", "required": True, "schema": {"type": "string", "format": "byte"}},
                        {"name": "at", "in": "query", "required": True, "schema": {"type": "string", "format": "date-time"}},
                        {"name": "ip", "in": "query", "schema": {"type": "string", "format": "ipv4"}},
                        {"name": "X-Id", "in": "header", "required": True, "schema": {"type": "string", "format": "uuid"}},
                    ],
                    "requestBody": {
                        "required": True,
                        "content": {
                            "application/json": {
                                "schema": {
                                    "type": "object",
                                    "required": ["id", "data"],
                                    "properties": {"id": {"type": "string", "format": "uuid"}, "data": {"type": "string", "format": "byte"}, "ids": {"type": "array", "items": {"type": "string", "format": "uuid"}}},
                                }
                            }
                        },
                    },
                    "responses": copy.deepcopy(docs.OK),
                }
            },
            "/q": {
                "post": {
                    "operationId": "postQ",
                    "requestBody": {
                        "required": True,
                        "content": {
                            "application/json": {
                                "schema": {
                                    "type": "object",
                                    "required": ["name", "age", "email"],
                                    "properties": {
                                        "name": {"type": "string", "minLength": 3, "maxLength": 12, "pattern": "[A-Za-z]+"},
                                        "age": {"type": "integer", "minimum": 18, "maximum": 99, "multipleOf": 3},
                                        "email": {"type": "string", "format": "email"},
                                        "nested": {"type": "object", "properties": {"ids": {"type": "array", "items": {"type": "integer"}, "uniqueItems": True}}},
                                    },
                                }
                            }
                        },
                    },
                    "responses": copy.deepcopy(docs.OK),
                }
            },
        },
        components={"securitySchemes": {"Bearer": {"type": "http", "scheme": "bearer"}, "Basic": {"type": "http", "scheme": "basic"}}},
    )


def doc_examples():
    doc = docs.doc_four()
    doc["paths"]["/a"]["get"]["parameters"][0]["example"] = 42
    doc["paths"]["/a"]["get"]["parameters"].append({"name": "s", "in": "query", "required": True, "schema": {"type": "string", "pattern": "^[xyz]{4}$"}})
    doc["paths"]["/b"]["post"]["requestBody"]["content"]["application/json"]["schema"]["example"] = {"v": True}
    return doc


def doc_many_required():
    """Several required parameters / properties per location: mutations that pick among them must be order-stable."""
    ok = copy.deepcopy(docs.OK)
    names = ["alpha", "beta", "gamma", "delta", "epsilon"]
    return docs.base(
        {
            "/m": {
                "post": {
                    "operationId": "postM",
                    "parameters": [{"name": n, "in": "query", "required": True, "schema": {"type": "integer"}} for n in names]
                    + [{"name": "X-" + n, "in": "header", "required": True, "schema": {"type": "integer"}} for n in names[:3]],
                    "requestBody": {
                        "required": True,
                        "content": {"application/json": {"schema": {"type": "object", "required": names, "properties": {n: {"type": "string", "minLength": 1} for n in names}, "additionalProperties": False}}},
                    },
                    "responses": ok,
                }
            }
        }
    )


DOCS = dict(docs.DOCS, rich=doc_rich, with_examples=doc_examples, many_required=doc_many_required)


def gen_groups(tier, seed):
    rng = random.Random(f"{seed}:C13")
    groups = []
    phase_sets = [["examples"], ["coverage"], ["fuzzing"], ["stateful"], ["examples", "coverage", "fuzzing", "stateful"]]
    # seed 0 is a seed like any other
    for doc in ("four", "many_required"):
        for modes in (["positive"], ["negative"]):
            groups.append({"doc": doc, "cfg": {"phases": ["fuzzing"], "max_examples": 6, "modes": modes}, "seed": 0})
    for doc in ("rich", "with_examples", "two_linked", "four", "multifile", "many_required"):
        for phases in phase_sets:
            if phases == ["stateful"] and doc not in ("two_linked",):
                continue
            if phases == ["examples"] and doc not in ("with_examples", "rich"):
                continue
            for modes in (["positive"], ["negative"], ["positive", "negative"]):
                if modes != ["positive"] and doc != "many_required" and rng.random() < (0.5 if tier == "quick" else 0.0):
                    continue
                groups.append({"doc": doc, "cfg": {"phases": phases, "max_examples": 6, "modes": modes}, "seed": rng.randrange(1, 10**6)})
    if tier == "thorough":
        more = []
        for g in groups:
            for _ in range(4):
                more.append(dict(g, seed=rng.randrange(1, 10**6)))
        groups += more
    rng.shuffle(groups)
    return groups


def plan(tier, seed):
    nshards = 16 if tier == "quick" else 32
    return [{"tier": tier, "seed": seed, "shard": i, "nshards": nshards} for i in range(nshards)]


# ------------------------------------------------------------------------------------------ one run
IGNORED_HEADERS = {"x-schemathesis-testcaseid", "user-agent", "host"}


def write_multifile(directory):
    """A document split over three files with relative references."""
    root = {
        "openapi": "3.0.2",
        "info": {"title": "mf", "version": "1"},
        "paths": {"/m/{id}": {"$ref": "paths/m.json#/item"}},
    }
    item = {
        "item": {
            "get": {
                "operationId": "getM",
                "parameters": [{"$ref": "../components/params.json#/Id"}, {"name": "f", "in": "query", "required": True, "schema": {"$ref": "../components/params.json#/Word"}}],
                "responses": {"200": {"description": "ok"}},
            }
        }
    }
    params = {
        "Id": {"name": "id", "in": "path", "required": True, "schema": {"type": "integer", "minimum": 1}},
        "Word": {"type": "string", "pattern": "^[a-f]{4,9}$"},
    }
    os.makedirs(os.path.join(directory, "paths"), exist_ok=True)
    os.makedirs(os.path.join(directory, "components"), exist_ok=True)
    with open(os.path.join(directory, "root.json"), "w") as fd:
        json.dump(root, fd)
    with open(os.path.join(directory, "paths", "m.json"), "w") as fd:
        json.dump(item, fd)
    with open(os.path.join(directory, "components", "params.json"), "w") as fd:
        json.dump(params, fd)
    return os.path.join(directory, "root.json")


_PRELOADED = False


def preload():
    """Import every module of the product and of this harness before the first run.

    Hypothesis draws "interesting constants" from the source of all LOCAL modules (anything outside site-packages)
    that are imported at the moment of a draw. Here the product is an editable install and the harness lives next to
    it, so both count as local, and a module imported lazily in the middle of a run (by another thread, or by the
    first run only) would change what is drawn afterwards. With a regular installation the product is not local and
    this cannot happen; importing everything up front gives the same stable situation."""
    global _PRELOADED
    if _PRELOADED:
        return
    import importlib
    import pkgutil

    import schemathesis
    import vmon

    for package in (schemathesis, vmon):
        for info in pkgutil.walk_packages(package.__path__, package.__name__ + "."):
            if ".props.c" in info.name and not info.name.endswith(".c13"):
                continue
            try:
                importlib.import_module(info.name)
            except Exception:
                pass
    for extra in ("schemathesis.cli", "schemathesis.cli.commands.run.executor", "schemathesis.specs.openapi.stateful", "schemathesis.specs.graphql.schemas"):
        try:
            importlib.import_module(extra)
        except Exception:
            pass
    _PRELOADED = True


def one_run(group, workers=1, jitter_seed=None, seed_override=None):
    """Execute one engine run; returns the normalised observation."""
    import tempfile

    preload()

    from vmon.instr import engine

    cfg = dict(group["cfg"], seed=seed_override if seed_override is not None else group["seed"], workers=workers)
    kwargs = {}
    if jitter_seed is not None:
        kwargs["jitter"] = {"points": None, "p": 0.3, "delays": [0, 0.001, 0.01]}
        kwargs["seed"] = jitter_seed
    tmp = None
    if group["doc"] == "multifile":
        import schemathesis

        tmp = tempfile.mkdtemp(prefix="verif-c13-")
        path = write_multifile(tmp)
        doc = {"openapi": "3.0.2", "info": {"title": "x", "version": "1"}, "paths": {}}

        def loader(_doc):
            return schemathesis.openapi.from_path(path)

        kwargs["schema_loader"] = loader
    else:
        doc = DOCS[group["doc"]]()
    try:
        result = engine.run_api(doc, cfg, rules=docs.LINK_RULES, timeout=150, **kwargs)
    finally:
        if tmp:
            import shutil

            shutil.rmtree(tmp, ignore_errors=True)
    owner = {}
    failures = set()
    for e in result.events:
        if e["type"] == "ScenarioFinished":
            for cid, c in e["recorder"]["cases"].items():
                owner[cid] = (e["phase"], c["operation"])
            for cid, checks in e["recorder"]["checks"].items():
                for c in checks:
                    if c["failure"]:
                        failures.add((e["phase"], e["label"], c["failure"]["type"], c["failure"]["title"]))
        if e["type"] == "NonFatalError":
            failures.add((e["phase"], e["label"], "error", e["error_type"]))
    requests_ = []
    for r in result.test_requests():
        cid = None
        headers = []
        for k, v in r["headers"]:
            if k.lower() == "x-schemathesis-testcaseid":
                cid = v
            if k.lower() not in IGNORED_HEADERS:
                headers.append((k.lower(), v))
        phase, label = owner.get(cid, ("?", "?"))
        requests_.append([phase, label, r["method"], r["raw_path"], sorted(headers), r["body"]])
    # normalised through JSON so that observations from a child process and from this process compare equal
    return json.loads(json.dumps({"requests": requests_, "failures": sorted(failures), "hung": result.hung, "error": result.harness_error, "exit": result.exit_code}))


def run_in_fresh_process(group, hashseed):
    env = dict(os.environ)
    env["PYTHONHASHSEED"] = str(hashseed)
    env["SCHEMATHESIS_VERIF"] = "1"
    env["PYTHONPATH"] = (os.environ["VERIF_REPO"] + "/src:" if os.environ.get("VERIF_REPO") else "") + HERE
    proc = subprocess.run(
        ["/venv/bin/python", "-c", "import sys, json; sys.path.append(%r); from vmon.props import c13; print('@@' + json.dumps(c13.one_run(json.loads(sys.argv[1]))))" % os.path.join(HERE, ".deps"), json.dumps(group)],
        env=env,
        capture_output=True,
        text=True,
        timeout=300,
    )
    for line in proc.stdout.splitlines():
        if line.startswith("@@"):
            return json.loads(line[2:])
    raise RuntimeError(f"child failed: {proc.stderr[-800:]}")


def first_difference(a, b):
    for i, (x, y) in enumerate(zip(a, b)):
        if x != y:
            return i, x, y
    if len(a) != len(b):
        i = min(len(a), len(b))
        return i, (a[i] if i < len(a) else None), (b[i] if i < len(b) else None)
    return None


def compare_sequences(kind, group, a, b):
    viols = []
    diff = first_difference(a["requests"], b["requests"])
    if diff is not None:
        i, x, y = diff
        phase = (x or y)[0]
        viols.append((f"C13/{kind}-different-requests:{phase.lower()}", f"request #{i} differs: {json.dumps(x)[:300]} vs {json.dumps(y)[:300]}"))
    if a["failures"] != b["failures"]:
        viols.append((f"C13/{kind}-different-failures", f"{a['failures'][:3]} vs {b['failures'][:3]}"))
    return viols


def compare_multisets(group, base, other, workers):
    viols = []

    def bag(obs):
        out = {}
        for r in obs["requests"]:
            if r[0] in ("EXAMPLES", "COVERAGE", "FUZZING"):
                key = json.dumps(r, sort_keys=True)
                out[key] = out.get(key, 0) + 1
        return out

    a, b = bag(base), bag(other)
    if a != b:
        only_a = [k for k in a if a[k] != b.get(k, 0)][:1]
        only_b = [k for k in b if b[k] != a.get(k, 0)][:1]
        phase = json.loads((only_a or only_b)[0])[0]
        viols.append((f"C13/workers-change-what-is-tested:{phase.lower()}", f"1 vs {workers} workers: {len(a)} vs {len(b)} distinct requests; e.g. {str(only_a)[:250]} / {str(only_b)[:250]}"))
    return viols


def digest(obs):
    import hashlib

    return hashlib.blake2b(json.dumps(obs["requests"], sort_keys=True).encode(), digest_size=8).hexdigest()


def cli_run(doc_name, cli_seed):
    """One real `st run --seed <n>` in this process; -> the normalised request sequence."""
    preload()
    from vmon.instr import engine

    args = ["--seed", str(cli_seed), "--max-examples", "6", "--phases", "fuzzing", "--generation-database", "none", "--suppress-health-check", "all", "--workers", "1"]
    result = engine.run_cli(DOCS[doc_name](), args, rules=docs.LINK_RULES, timeout=150)
    requests_ = []
    for r in result.test_requests():
        headers = sorted((k.lower(), v) for k, v in r["headers"] if k.lower() not in IGNORED_HEADERS)
        requests_.append(["FUZZING", "cli", r["method"], r["raw_path"], headers, r["body"]])
    return json.loads(json.dumps({"requests": requests_, "failures": [], "hung": result.hung, "error": result.harness_error, "exit": result.exit_code}))


def cli_seed_probe(emit):
    """The seed as the user gives it (`--seed N` on the command line, 0 included) is the seed that is used."""
    for doc_name in ("many_required", "rich"):
        for cli_seed in (0, 7):
            a, b = cli_run(doc_name, cli_seed), cli_run(doc_name, cli_seed)
            if a["hung"] or b["hung"] or a["error"] or b["error"]:
                emit.inconclusive(f"cli seed probe: run did not complete ({a['error'] or b['error'] or 'watchdog'})")
                continue
            emit.count("cli_seed_pairs")
            emit.count("requests_compared", len(a["requests"]))
            emit.case(sig=f"cli|{doc_name}|{cli_seed}|{digest(a)}" if len(a["requests"]) >= 5 else None, sample=None)
            for key, what in compare_sequences("cli-seed", {"doc": doc_name}, a, b):
                emit.viol(key + f":seed-{'zero' if cli_seed == 0 else 'nonzero'}", what, {"cli_probe": {"doc": doc_name, "seed": cli_seed}})


def run_shard(spec, emit):
    tier, seed, shard, nshards = spec["tier"], spec["seed"], spec["shard"], spec["nshards"]
    sys.setswitchinterval(1e-5)
    groups = [g for i, g in enumerate(gen_groups(tier, seed)) if i % nshards == shard]
    deadline = time.monotonic() + (95 if tier == "quick" else 300)
    samples = 0
    if shard == nshards - 1:
        cli_seed_probe(emit)
    for gi, group in enumerate(groups):
        if time.monotonic() > deadline:
            emit.count("groups_skipped_budget")
            continue
        viols = []
        try:
            p1 = run_in_fresh_process(group, 1)
            p2 = run_in_fresh_process(group, 4242)
        except Exception as exc:
            emit.inconclusive(f"fresh process failed: {exc}")
            continue
        if p1["hung"] or p2["hung"]:
            emit.inconclusive("watchdog fired in child")
            continue
        viols += compare_sequences("fresh-process", group, p1, p2)
        emit.count("fresh_process_pairs")
        s1 = one_run(group)
        s2 = one_run(group)
        viols += compare_sequences("same-process", group, s1, s2)
        # p1 vs s1 is NOT compared: Hypothesis seeds its pool of "interesting constants" from the local (non
        # site-packages) modules that happen to be imported, and this long-lived shard process has imported other
        # modules than a fresh child - a property of the harness, not of the product
        emit.count("same_process_pairs")
        if "stateful" not in group["cfg"]["phases"] or len(group["cfg"]["phases"]) > 1:
            for workers in (2, 4):
                w = one_run(group, workers=workers, jitter_seed=seed * 100 + workers)
                viols += compare_multisets(group, s1, w, workers)
                emit.count("worker_comparisons")
        other = one_run(group, seed_override=group["seed"] + 17)
        emit.count("different_seed_pairs")
        if other["requests"] != s1["requests"]:
            emit.count("different_seed_pairs_that_differ")
        n = len(s1["requests"])
        nontrivial = n >= 5
        sample = None
        if nontrivial and samples < 2:
            samples += 1
            sample = {"group": group, "requests": n, "first_requests": s1["requests"][:3], "digest": digest(s1)}
        emit.case(sig=f"{group['doc']}|{group['cfg']}|{digest(s1)}" if nontrivial else None, sample=sample)
        emit.count("requests_compared", n)
        for key, what in viols:
            emit.viol(key, what, {"group": group})


def replay(case):
    if "cli_probe" in case:
        pr = case["cli_probe"]
        viols = compare_sequences("cli-seed", {"doc": pr["doc"]}, cli_run(pr["doc"], pr["seed"]), cli_run(pr["doc"], pr["seed"]))
        return [{"key": k + f":seed-{'zero' if pr['seed'] == 0 else 'nonzero'}", "what": w} for k, w in viols]
    group = case["group"]
    p1 = run_in_fresh_process(group, 1)
    p2 = run_in_fresh_process(group, 4242)
    viols = compare_sequences("fresh-process", group, p1, p2)
    s1 = one_run(group)
    viols += compare_sequences("same-process", group, s1, one_run(group))
    for workers in (2, 4):
        viols += compare_multisets(group, s1, one_run(group, workers=workers, jitter_seed=workers), workers)
    return [{"key": k, "what": w} for k, w in viols]

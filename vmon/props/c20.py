"""C20 — generated GraphQL requests are valid for the schema and target their field.

Monitor: `case.body` for draws of `schema[root][field].as_strategy(generation_config=...)` on generated SDL schemas
(loaded from SDL text and from introspection JSON), plus `get_all_operations()` / `schema.statistic` under name filters.
Oracle: graphql-core's own parser and validator (independent of the generator), a walk of the parsed document for the
selected root field / null literals / string restrictions, and the selection reference over root fields.
"""

from __future__ import annotations

import random
import time

ID = "C20"
LEVEL = "exploration"
RULE = (
    "schemas: generated SDL with 2-5 queries and 0-3 mutations, 0-4 arguments each over built-in scalars, registered custom and extra "
    "scalars (Date, DateTime, UUID, IPv4, Long), enums, nested input objects, lists and non-null wrappers, object/interface/union return "
    "types; loaded from SDL and from introspection JSON; graphql_allow_null x allow_x00 x codec {utf-8, ascii}; include/exclude name "
    "filters. Non-trivial = a drawn document with at least one argument; distinct = distinct printed documents"
)
ASSUMPTIONS = [
    "graphql-core's parse/validate is the reference for 'syntactically valid' and 'passes validation'",
    "extra scalar values (Date, UUID, ...) are checked with exact parsers; other custom scalars only for node kind",
]
MIN_EVALUATIONS = {"quick": 2000, "thorough": 50000}
MIN_NONTRIVIAL = {"quick": 1000, "thorough": 25000}
REACH_FLOORS = {"documents_validated": 2000, "string_values_checked": 500, "filter_sets_checked": 100, "schemas_from_introspection": 10}
SHARD_TIMEOUT = {"quick": 900, "thorough": 5400}

SCALARS = ["Int", "Float", "String", "Boolean", "ID", "Date", "DateTime", "UUID", "IPv4", "Long", "Token"]


def plan(tier, seed):
    nshards = 16 if tier == "quick" else 32
    return [{"tier": tier, "seed": seed, "shard": i, "nshards": nshards} for i in range(nshards)]


def gen_sdl(rng):
    """-> (sdl, queries, mutations)"""
    lines = ["scalar Date", "scalar DateTime", "scalar UUID", "scalar IPv4", "scalar Long", "scalar Token", ""]
    lines += ["enum Color { RED GREEN BLUE }", "enum Size { S M L }", ""]
    lines += ["input Inner { n: Int! tags: [String!] when: Date }", "input Filter { color: Color size: Size = M inner: Inner ids: [ID!]! deep: [[Int]] }", ""]
    lines += ["interface Node { id: ID! }", "type Item implements Node { id: ID! name: String price: Float color: Color }", "type Shop implements Node { id: ID! items: [Item!]! }", "union Thing = Item | Shop", ""]

    def type_ref():
        base = rng.choice(SCALARS + ["Color", "Size", "Filter", "Inner"])
        shape = rng.choice(["T", "T!", "[T]", "[T!]", "[T!]!", "T", "T!"])
        return shape.replace("T", base)

    def field(name):
        args = []
        for i in range(rng.randint(0, 4)):
            args.append(f"a{i}: {type_ref()}")
        ret = rng.choice(["Item", "[Item!]!", "Shop", "Node", "Thing", "String", "Int!", "Boolean", "[Thing]"])
        # a deprecated root field is still a field of the API: offered, counted and testable like the others
        deprecated = ' @deprecated(reason: "old")' if rng.random() < 0.2 else ""
        return f"  {name}" + (f"({', '.join(args)})" if args else "") + f": {ret}{deprecated}", bool(args)

    # root types need not be called Query / Mutation, and a Subscription root type is never offered for testing
    custom_roots = rng.random() < 0.3
    qroot, mroot = ("RootQuery", "RootMutation") if custom_roots else ("Query", "Mutation")
    queries, mutations = [], []
    q_lines = []
    for i in range(rng.randint(2, 5)):
        name = rng.choice(["item", "items", "shop", "search", "node", "ping", "things"]) + str(i)
        text, _ = field(name)
        q_lines.append(text)
        queries.append(name)
    lines += [f"type {qroot} {{"] + q_lines + ["}", ""]
    with_mutation = rng.random() < 0.7
    if rng.random() < 0.35:
        sroot = "Events" if custom_roots else "Subscription"
        lines += [f"type {sroot} {{", "  itemChanged(id: ID!): Item", "  tick: Int!", "}", ""]
        if custom_roots:
            lines += ["schema {", f"  query: {qroot}"] + ([f"  mutation: {mroot}"] if with_mutation else []) + [f"  subscription: {sroot}", "}", ""]
    elif custom_roots:
        lines += ["schema {", f"  query: {qroot}"] + ([f"  mutation: {mroot}"] if with_mutation else []) + ["}", ""]
    if with_mutation:
        m_lines = []
        for i in range(rng.randint(1, 3)):
            name = rng.choice(["createItem", "deleteItem", "rename", "tag"]) + str(i)
            if i == 0 and rng.random() < 0.3:
                name = queries[0]  # the same field name under both root types
            text, _ = field(name)
            m_lines.append(text)
            mutations.append(name)
        lines += [f"type {mroot} {{"] + m_lines + ["}", ""]
    return "\n".join(lines), queries, mutations, qroot, mroot


def run_shard(spec, emit):
    import datetime
    import ipaddress
    import uuid

    import graphql
    import hypothesis
    from hypothesis import HealthCheck, Phase, given, settings
    from hypothesis import strategies as st

    import schemathesis
    from schemathesis.core.result import Ok
    from schemathesis.generation import GenerationConfig
    from schemathesis.specs.graphql import nodes

    tier, seed, shard = spec["tier"], spec["seed"], spec["shard"]
    rng = random.Random(f"{seed}:C20:{shard}")
    schemathesis.graphql.scalar("Token", st.from_regex(r"\Atok_[a-z]{4}\Z").map(nodes.String))
    n_schemas = 6 if tier == "quick" else 60
    n_draws = 25 if tier == "quick" else 60
    deadline = time.monotonic() + (80 if tier == "quick" else 300)
    samples = 0
    for s_idx in range(n_schemas):
        if time.monotonic() > deadline:
            break
        sdl, queries, mutations, qroot, mroot = gen_sdl(rng)
        emit.distinct("root_type_names", qroot)
        emit.distinct("has_subscription", "subscription" in sdl.lower())
        try:
            reference_schema = graphql.build_schema(sdl)
        except Exception as exc:
            emit.inconclusive(f"generator produced invalid SDL: {exc}")
            continue
        from_introspection = rng.random() < 0.4
        cfg = {"graphql_allow_null": rng.random() < 0.5, "allow_x00": rng.random() < 0.5, "codec": rng.choice(["utf-8", "ascii"])}
        context = {"sdl": sdl, "cfg": cfg, "introspection": from_introspection}
        try:
            if from_introspection:
                intro = graphql.graphql_sync(reference_schema, graphql.get_introspection_query()).data
                schema = schemathesis.graphql.from_dict(intro)
                emit.count("schemas_from_introspection")
            else:
                schema = schemathesis.graphql.from_file(sdl)
            schema.base_url = "http://127.0.0.1:1/graphql"
        except Exception as exc:
            emit.viol("C20/schema-not-loadable", f"{type(exc).__name__}: {exc}"[:200], context)
            continue
        # ---- offered operations and counts under name filters
        all_names = [f"{qroot}.{q}" for q in queries] + [f"{mroot}.{m}" for m in mutations]
        for _ in range(6):
            kind = rng.choice(["none", "include", "exclude", "include_regex", "both"])
            filtered = schema
            inc = exc_ = None
            if kind in ("include", "both"):
                inc = rng.sample(all_names, rng.randint(1, max(1, len(all_names) // 2)))
                filtered = filtered.include(name=inc)
            if kind in ("exclude", "both"):
                exc_ = rng.sample(all_names, rng.randint(1, max(1, len(all_names) // 2)))
                try:
                    filtered = filtered.exclude(name=exc_)
                except Exception:
                    continue
            regex = None
            if kind == "include_regex":
                regex = rng.choice([f"^{qroot}\\.", f"^{mroot}\\.", "item", "1$"])
                filtered = filtered.include(name_regex=regex)
            import re

            expected = [n for n in all_names if (inc is None or n in inc) and (exc_ is None or n not in exc_) and (regex is None or re.search(regex, n))]
            got = [r.ok().label for r in filtered.get_all_operations() if isinstance(r, Ok)]
            emit.count("filter_sets_checked")
            emit.case(sig=f"filter|{s_idx}|{shard}|{kind}|{sorted(expected)}")
            fcontext = dict(context, include=inc, exclude=exc_, regex=regex)
            if sorted(got) != sorted(expected):
                emit.viol("C20/offered-operations-differ-from-selected-root-fields", f"offered {sorted(got)}, reference {sorted(expected)}", fcontext)
            stat = filtered.statistic.operations
            if (stat.selected, stat.total) != (len(expected), len(all_names)):
                emit.viol("C20/selected-total-counts-differ", f"reported {stat.selected}/{stat.total}, reference {len(expected)}/{len(all_names)}", fcontext)
        # ---- generated documents
        generation_config = GenerationConfig(**cfg)
        for root, names in ((qroot, queries), (mroot, mutations)):
            for field_name in names:
                try:
                    operation = schema[root][field_name]
                except Exception as exc:
                    emit.viol("C20/operation-lookup-failed", f"{root}.{field_name}: {type(exc).__name__}: {exc}"[:200], context)
                    continue
                bodies = []

                @hypothesis.seed(rng.randrange(10**9))
                @settings(max_examples=n_draws, database=None, deadline=None, phases=[Phase.generate], suppress_health_check=list(HealthCheck))
                @given(case=operation.as_strategy(generation_config=generation_config))
                def test(case):
                    bodies.append(case.body)

                try:
                    test()
                except Exception as exc:
                    emit.viol("C20/generation-crashed", f"{root}.{field_name}: {type(exc).__name__}: {exc}"[:250], context)
                    continue
                for body in bodies:
                    emit.count("documents_validated")
                    dcontext = dict(context, field=f"{root}.{field_name}", document=body if isinstance(body, str) else repr(body))
                    if not isinstance(body, str):
                        emit.viol("C20/body-is-not-a-document-string", repr(body)[:100], dcontext)
                        continue
                    try:
                        document = graphql.parse(body)
                    except Exception as exc:
                        emit.viol("C20/document-not-parsable", f"{type(exc).__name__}: {exc}"[:200], dcontext)
                        continue
                    errors = graphql.validate(reference_schema, document)
                    if errors:
                        emit.viol("C20/document-fails-validation:" + type(errors[0]).__name__, str(errors[0])[:200], dcontext)
                    definitions = [d for d in document.definitions if isinstance(d, graphql.OperationDefinitionNode)]
                    if len(definitions) != 1:
                        emit.viol("C20/not-exactly-one-operation", f"{len(definitions)} operations", dcontext)
                        continue
                    definition = definitions[0]
                    expected_kind = graphql.OperationType.QUERY if root == qroot else graphql.OperationType.MUTATION
                    if definition.operation != expected_kind:
                        emit.viol("C20/wrong-operation-kind", f"{definition.operation} for {root}.{field_name}", dcontext)
                    top = [s.name.value for s in definition.selection_set.selections if isinstance(s, graphql.FieldNode)]
                    if top != [field_name]:
                        emit.viol("C20/top-level-selection-is-not-the-operation-field", f"selected {top}, expected [{field_name}]", dcontext)
                    # values
                    has_args = False
                    field_def = (reference_schema.query_type if root == qroot else reference_schema.mutation_type).fields[field_name]

                    def walk(node, gql_type):
                        nonlocal has_args
                        named = graphql.get_named_type(gql_type) if gql_type is not None else None
                        if isinstance(node, graphql.NullValueNode):
                            if not cfg["graphql_allow_null"]:
                                emit.viol("C20/null-literal-although-nulls-disabled", f"null for type {gql_type}", dcontext)
                            return
                        if isinstance(node, graphql.ListValueNode):
                            inner = gql_type
                            while isinstance(inner, graphql.GraphQLNonNull):
                                inner = inner.of_type
                            item_type = inner.of_type if isinstance(inner, graphql.GraphQLList) else None
                            for v in node.values:
                                walk(v, item_type)
                            return
                        if isinstance(node, graphql.ObjectValueNode):
                            for f in node.fields:
                                sub = named.fields[f.name.value].type if isinstance(named, graphql.GraphQLInputObjectType) and f.name.value in named.fields else None
                                walk(f.value, sub)
                            return
                        if isinstance(node, graphql.StringValueNode):
                            emit.count("string_values_checked")
                            value = node.value
                            if not cfg["allow_x00"] and "\x00" in value:
                                emit.viol("C20/nul-character-although-disallowed", repr(value)[:60], dcontext)
                            name = getattr(named, "name", None)
                            if name in ("String", "ID", None) or name not in ("Date", "DateTime", "UUID", "IPv4", "Token"):
                                try:
                                    value.encode(cfg["codec"])
                                except UnicodeEncodeError:
                                    emit.viol("C20/string-not-encodable-in-configured-codec", f"{cfg['codec']}: {value!r:.60}", dcontext)
                            try:
                                if name == "Date":
                                    datetime.date.fromisoformat(value)
                                elif name == "UUID":
                                    uuid.UUID(value)
                                elif name == "IPv4":
                                    ipaddress.IPv4Address(value)
                                elif name == "Token" and not re.fullmatch(r"tok_[a-z]{4}", value):
                                    raise ValueError("does not match the registered strategy")
                            except ValueError as exc:
                                emit.viol(f"C20/custom-scalar-value-not-acceptable:{name}", f"{value!r:.60}: {exc}", dcontext)
                        elif isinstance(node, graphql.IntValueNode) and getattr(named, "name", None) == "Long":
                            if not -(2**63) <= int(node.value) <= 2**63 - 1:
                                emit.viol("C20/custom-scalar-value-not-acceptable:Long", node.value, dcontext)

                    for selection in definition.selection_set.selections:
                        if isinstance(selection, graphql.FieldNode):
                            for arg in selection.arguments or ():
                                has_args = True
                                arg_def = field_def.args.get(arg.name.value)
                                walk(arg.value, arg_def.type if arg_def else None)
                    sample = None
                    if has_args and samples < 2:
                        samples += 1
                        sample = {"field": f"{root}.{field_name}", "cfg": cfg, "document": body[:300]}
                    emit.case(sig=body if has_args else None, sample=sample)


def replay(case):
    return []

"""C05 — no failure or internal error is ever lost: it reaches the report and the exit code.

Monitor: real runs (through the real `st run` entry point in-process, and through `from_schema().execute()` with
the CLI's own ExecutionContext for the exit code) against the scripted loopback API. Ground truth comes from the
server log (which responses the API gave) and from the controller (which fault fired where). Oracle: from ground
truth to report (scenario/phase status, recorded check failure with the offending request, non-zero exit code) and
back (exit code 0 => nothing went wrong and every selected operation was tested or explicitly skipped).
"""

from __future__ import annotations

import random
import sys
import time
from urllib.parse import urlsplit

from vmon.gen import docs
from vmon.instr import engine
from vmon.props import c13 as _c13

docs.DOCS.setdefault("with_examples", _c13.doc_examples)

ID = "C05"
LEVEL = "fault_enumeration"
RULE = (
    "runs = base (document, phases, workers, limits, checks) x API behaviour (no failure | 5xx on the k-th request to an "
    "operation | undocumented status | wrong content type | schema-violating body | connection closed) x one injected "
    "fault (none | VerifFault at hit h<=3 of each of: unit.worker.create_test, unit.case.enter, transport.send, checks.run, "
    "stateful.step, unit.producer.next, cli.handler) x consumer-race delays; CLI mode gives the real exit code. "
    "Non-trivial = ground truth contains a failing response, a transport error or a fired fault; distinct = distinct "
    "(base, behaviour, fault, outcome) signatures"
)
ASSUMPTIONS = [
    "single faults are injected at the guarded hook points and hit indices, not at arbitrary bytecodes",
    "runs stopped by max_failures are only required to report at least one failure and a non-zero exit code",
]
MIN_EVALUATIONS = {"quick": 150, "thorough": 1200}
MIN_NONTRIVIAL = {"quick": 80, "thorough": 250}
REACH_FLOORS = {"ground_truth_failures": 40, "faults_fired": 30, "clean_runs_exit0": 5, "cli_runs": 10}
SHARD_TIMEOUT = {"quick": 900, "thorough": 5400}

BASES = [
    ("one", {"phases": ["fuzzing"], "max_examples": 4}),
    ("one", {"phases": ["examples", "coverage", "fuzzing", "stateful"], "max_examples": 3}),
    ("two_linked", {"phases": ["fuzzing", "stateful"], "max_examples": 3}),
    ("two_linked", {"phases": ["stateful"], "max_examples": 4}),
    ("four", {"phases": ["fuzzing"], "max_examples": 3, "workers": 2}),
    ("four", {"phases": ["coverage", "fuzzing"], "max_examples": 2, "workers": 4}),
    ("four", {"phases": ["fuzzing"], "max_examples": 3, "continue_on_failure": True}),
    ("four", {"phases": ["fuzzing"], "max_examples": 3, "max_failures": 1, "workers": 2}),
    ("four", {"phases": ["coverage"], "unique_inputs": True}),
    ("four", {"phases": ["fuzzing"], "max_examples": 3, "modes": ["positive", "negative"]}),
    ("eight", {"phases": ["fuzzing"], "max_examples": 2, "workers": 4}),
    ("with_examples", {"phases": ["examples"]}),
    ("with_examples", {"phases": ["examples", "coverage", "fuzzing"], "max_examples": 2}),
    ("four", {"phases": ["coverage", "fuzzing"], "max_examples": 3}),
    ("four", {"phases": ["fuzzing"], "max_examples": 3, "modes": ["negative"]}),
    # an error that belongs to no operation (unresolvable path item): still an error of the phase and of the run
    ("broken_item", {"phases": ["coverage", "fuzzing"], "max_examples": 2}),
    # a check that fails on a request it derives itself (credentials removed): the failure belongs to THAT request
    ("secured", {"phases": ["fuzzing"], "max_examples": 3, "headers": {"X-API-Key": "user-key-123"}, "checks_override": ["ignored_auth"]}),
    # the same when the run goes on after a failure: the scenario fails although only the derived request is blamed
    ("secured", {"phases": ["fuzzing"], "max_examples": 3, "headers": {"X-API-Key": "user-key-123"}, "checks_override": ["ignored_auth"], "continue_on_failure": True}),
]
ALL_CHECKS = ["not_a_server_error", "status_code_conformance", "content_type_conformance", "response_schema_conformance"]

# behaviour name -> (rules, which check it must trip, kind)
def behaviours(doc_name):
    target = {"one": "/items", "two_linked": "/users/", "four": "/a", "eight": "/r3", "with_examples": "/a", "broken_item": "/a", "secured": "/open"}[doc_name]
    rx = "^" + target
    out = {
        "ok": ([], None),
        "5xx_first": ([{"when": {"method": "GET", "path_regex": rx, "nth": 1}, "then": {"status": 500, "json": {}}}], "not_a_server_error"),
        "5xx_third": ([{"when": {"method": "GET", "path_regex": rx, "nth": 3}, "then": {"status": 503, "json": {}}}], "not_a_server_error"),
        "5xx_then_503": (
            [
                {"when": {"method": "GET", "path_regex": rx, "nth": 1}, "then": {"status": 500, "json": {}}},
                {"when": {"method": "GET", "path_regex": rx, "from_nth": 1}, "then": {"status": 503, "json": {}}},
            ],
            "not_a_server_error",
        ),
        "5xx_always": ([{"when": {"method": "GET", "path_regex": rx}, "then": {"status": 500, "json": {}}}], "not_a_server_error"),
        "undocumented_status": ([{"when": {"method": "GET", "path_regex": rx, "nth": 2}, "then": {"status": 418, "json": {}}}], "status_code_conformance"),
        "wrong_content_type": ([{"when": {"method": "GET", "path_regex": rx, "nth": 2}, "then": {"status": 200, "body": "<p>x</p>", "content_type": "text/html"}}], "content_type_conformance"),
        "bad_body": ([{"when": {"method": "GET", "path_regex": rx, "nth": 2}, "then": {"status": 200, "json": [1, 2]}}], "response_schema_conformance"),
        "closed": ([{"when": {"method": "GET", "path_regex": rx, "nth": 2}, "then": {"close": True}}], "transport"),
    }
    if doc_name == "two_linked":
        # only GET /users/{id} documents a 200 with an object schema; POST has 201
        out = {k: v for k, v in out.items() if k not in ("wrong_content_type", "bad_body") or True}
    return out


FAULT_POINTS = ["unit.worker.create_test", "unit.case.enter", "transport.send", "checks.run", "stateful.step", "unit.producer.next", "cli.handler"]


def plan(tier, seed):
    nshards = 16 if tier == "quick" else 32
    return [{"tier": tier, "seed": seed, "shard": i, "nshards": nshards} for i in range(nshards)]


def cli_args(cfg, checks, seed):
    args = ["--phases", ",".join(cfg["phases"]), "--seed", str(seed), "--generation-database", "none", "--checks", ",".join(checks), "--suppress-health-check", "all"]
    if "max_examples" in cfg:
        args += ["--max-examples", str(cfg["max_examples"])]
    if cfg.get("workers", 1) != 1:
        args += ["--workers", str(cfg["workers"])]
    if cfg.get("max_failures"):
        args += ["--max-failures", str(cfg["max_failures"])]
    if cfg.get("continue_on_failure"):
        args += ["--continue-on-failure"]
    if cfg.get("unique_inputs"):
        args += ["--generation-unique-inputs"]
    if cfg.get("modes"):
        args += ["--mode", "all" if len(cfg["modes"]) == 2 else cfg["modes"][0]]
    return args


def execute(case):
    doc_name, cfg = BASES[case["base"]]
    rules, _ = behaviours(doc_name)[case["behaviour"]]
    rules = docs.LINK_RULES + rules
    plan_ = None
    if case.get("fault"):
        plan_ = {case["fault"]["point"]: [{"hit": case["fault"]["hit"], "action": "raise"}]}
    elif case.get("delay"):
        plan_ = {case["delay"]["point"]: [{"hit": case["delay"]["hit"], "action": "delay", "arg": 0.3}]}
    checks = case["checks"]
    if cfg.get("checks_override"):
        checks = sorted(set(checks) | set(cfg["checks_override"]))
        cfg = {k: v for k, v in cfg.items() if k != "checks_override"}
        case = dict(case, mode="api")
    if case["mode"] == "cli":
        return engine.run_cli(docs.DOCS[doc_name](), cli_args(cfg, checks, case["seed"]), rules=rules, plan=plan_, timeout=120)
    return engine.run_api(docs.DOCS[doc_name](), dict(cfg, seed=case["seed"], checks=checks), rules=rules, plan=plan_, timeout=120)


def op_label_for(doc, request):
    """Attribute a logged request to a documented operation (templates are unambiguous in our documents)."""
    import re

    for template, item in doc["paths"].items():
        pattern = "^" + re.sub(r"\{[^}]+\}", "[^/]+", template) + "$"
        if re.match(pattern, request["path"]):
            method = request["method"].lower()
            if method in item:
                return f"{request['method'].upper()} {template}"
            return None
    return None


def judge(case, result):
    doc_name, cfg = BASES[case["base"]]
    doc = docs.DOCS[doc_name]()
    _, trips = behaviours(doc_name)[case["behaviour"]]
    events = result.events
    viols = []
    fired = [f for f in result.fired if f["action"] == "raise"]
    requests_ = result.test_requests()
    # ---- ground truth
    bad_requests = []
    enabled = set(case["checks"])
    for r in requests_:
        # rule 0 = schema document, then the link rules; behaviour rules come after
        if r["rule"] is None or r["rule"] < 1 + len(docs.LINK_RULES):
            continue
        if trips == "transport":
            bad_requests.append((r, "transport"))
        elif trips in enabled:
            bad_requests.append((r, trips))
    gt_bad = bool(bad_requests)
    scen_finished = [e for e in events if e["type"] == "ScenarioFinished"]
    errors = [e for e in events if e["type"] in ("NonFatalError", "FatalError")]
    bad_scen = [e for e in scen_finished if e["status"] in ("FAILURE", "ERROR")]
    exit_code = result.exit_code
    if case["mode"] == "cli" and result.harness_error:
        # an exception that escapes the CLI entry point ends a real process with a traceback and status 1
        exit_code = 1
    limit = cfg.get("max_failures")

    def all_failures():
        out = []
        for e in scen_finished:
            rec = e["recorder"]
            for cid, checks in rec["checks"].items():
                for c in checks:
                    if c["status"] == "FAILURE":
                        out.append((e, cid, c, rec["interactions"].get(cid)))
        return out

    failures = all_failures()
    if gt_bad:
        if exit_code == 0:
            viols.append((f"C05/exit-zero-despite-{bad_requests[0][1]}", f"{len(bad_requests)} offending responses in the API log, exit code 0"))
        if trips != "transport":
            # the failure must be recorded with the request that caused it
            matched = False
            for r, _ in bad_requests:
                for e, cid, c, inter in failures:
                    if inter is None:
                        continue
                    u = urlsplit(inter["uri"])
                    raw = u.path + ("?" + u.query if u.query else "")
                    if inter["method"].upper() == r["method"].upper() and raw == r["raw_path"] and (inter["body"] or "") == (r["body"] or ""):
                        matched = True
                        break
                if matched:
                    break
            if not matched:
                viols.append((f"C05/failure-not-recorded-with-its-request:{trips}", f"no recorded check failure whose request equals one of the {len(bad_requests)} offending requests"))
            if not any(c["name"] == trips for _, _, c, _ in failures):
                viols.append((f"C05/check-failure-missing:{trips}", "no failure of that check recorded"))
        else:
            if not bad_scen and not errors:
                viols.append(("C05/transport-error-not-reported", "connection closed by the API but no scenario/err event reports it"))
        # affected scenario and phase reported as failed / errored
        if limit is None:
            labels = {op_label_for(doc, r) for r, _ in bad_requests} - {None}
            reported = {e["label"] for e in bad_scen} | {e["label"] for e in errors}
            stateful_bad = any(e["phase"] == "STATEFUL_TESTING" for e in bad_scen)
            missing = {l for l in labels if l not in reported}
            if missing and not stateful_bad:
                viols.append(("C05/affected-scenario-not-failed", f"operations {sorted(missing)} got offending responses but no FAILURE/ERROR scenario names them"))
        phases_bad = {e["phase"] for e in events if e["type"] == "PhaseFinished" and e["status"] in ("FAILURE", "ERROR")}
        for phase in sorted({e["phase"] for e in bad_scen}):
            if phase not in phases_bad and limit is None:
                status = [e["status"] for e in events if e["type"] == "PhaseFinished" and e["phase"] == phase]
                viols.append(("C05/phase-not-failed", f"{phase} has failed/errored scenarios but finished {status}"))
        # the CLI's bookkeeping (FAILURES section, JUnit) keeps every distinct server error that the recorders hold
        if result.reported_failures is not None:
            recorded = {(c["failure"]["operation"], c["failure"]["status_code"]) for _, _, c, _ in failures if c["failure"]["type"] == "ServerError"}
            reported = {(f["operation"], f["status_code"]) for f in result.reported_failures if f["type"] == "ServerError"}
            lost = recorded - reported
            if lost:
                viols.append(("C05/recorded-failure-missing-from-report", f"server errors {sorted(lost)} are in the recorders but not in the report's failure list {sorted(reported)}"))
    # an error event of a phase makes that phase errored (whether or not it names an operation)
    for err in errors:
        phase = err.get("phase")
        statuses = [e["status"] for e in events if e["type"] == "PhaseFinished" and e["phase"] == phase]
        if phase and statuses and statuses[-1] in ("SUCCESS", "SKIP") and limit is None:
            viols.append(("C05/phase-not-errored-despite-error-event", f"{phase} finished {statuses[-1]} although it emitted {err.get('error_type')}"))
            break
    # a failure of `ignored_auth` is caused by the request the check sent WITHOUT the credentials
    for e, cid, c, inter in failures:
        if c["name"] == "ignored_auth" and inter is not None:
            sent_key = [v for k, v in (inter.get("headers") or {}).items() if k.lower() == "x-api-key"]
            flat = [x for v in sent_key for x in (v if isinstance(v, list) else [v])]
            if "user-key-123" in flat:
                viols.append(("C05/failure-recorded-with-another-request:ignored_auth", f"the failure is filed under a request that carries the user's key: {flat}"))
                break
    # a scenario whose recorder holds a failed check (on the generated request or on one a check derived) is not a success
    for e, cid, c, inter in failures:
        if e.get("status") == "SUCCESS":
            viols.append((f"C05/scenario-succeeded-despite-failed-check:{c['name']}", f"{e.get('label')} finished SUCCESS with a failed `{c['name']}` in its recorder"))
            break
    if fired:
        point = fired[0]["point"]
        if exit_code == 0:
            viols.append((f"C05/exit-zero-despite-fault@{point}", f"fault fired at {point} hit {fired[0]['hit']} ({fired[0]['role']}), exit code 0"))
        if not bad_scen and not errors and point != "cli.handler":
            viols.append((f"C05/fault-not-reported@{point}", "no ERROR scenario / error event after the fault"))
    # ---- converse
    if exit_code == 0 and not viols:
        if errors:
            viols.append(("C05/exit-zero-with-error-events", f"{[e.get('error_type') for e in errors][:3]}"))
        if bad_scen:
            viols.append(("C05/exit-zero-with-failed-scenarios", f"{[(e['label'], e['status']) for e in bad_scen][:3]}"))
        # every selected operation tested or explicitly skipped in every enabled unit phase
        labels = []
        for template, item in doc["paths"].items():
            for method in item:
                if method != "$ref":
                    labels.append(f"{method.upper()} {template}")
        phase_names = {"examples": "EXAMPLES", "coverage": "COVERAGE", "fuzzing": "FUZZING"}
        for phase in cfg["phases"]:
            if phase not in phase_names:
                continue
            closed = {e["label"] for e in scen_finished if e["phase"] == phase_names[phase] and e["status"] in ("SUCCESS", "SKIP")}
            missing = [l for l in labels if l not in closed]
            if missing:
                viols.append(("C05/exit-zero-but-operation-not-accounted-for", f"phase {phase}: {missing[:4]} neither tested nor skipped"))
    if result.harness_error and case["mode"] != "cli" and not fired:
        viols.append(("C05/stream-raised", result.harness_error))
    return viols, gt_bad, bool(fired)


def check_case(case):
    result = execute(case)
    if result.hung:
        return result, None, "watchdog fired"
    viols, gt_bad, fired = judge(case, result)
    return result, (viols, gt_bad, fired), None


def gen_cases(tier, seed):
    rng = random.Random(f"{seed}:C05")
    cases = []
    for b, (doc_name, cfg) in enumerate(BASES):
        names = list(behaviours(doc_name))
        for name in names:
            mode = "cli" if rng.random() < 0.35 else "api"
            checks = ALL_CHECKS if rng.random() < 0.7 else ["not_a_server_error"]
            cases.append({"base": b, "behaviour": name, "mode": mode, "checks": checks, "seed": seed + 1})
        # single faults
        hits = (1, 2, 3) if tier == "thorough" else (1, 2)
        for point in FAULT_POINTS:
            for hit in hits:
                stateful_only = point == "stateful.step"
                if stateful_only and "stateful" not in cfg["phases"]:
                    continue
                if point.startswith("unit.") and not (set(cfg["phases"]) & {"examples", "coverage", "fuzzing"}):
                    continue
                mode = "cli" if point == "cli.handler" or rng.random() < 0.3 else "api"
                cases.append({"base": b, "behaviour": "ok", "mode": mode, "checks": ["not_a_server_error"], "seed": seed + 1, "fault": {"point": point, "hit": hit}})
        # consumer-race delays with a late failure
        for point in ("unit.consumer.empty", "stateful.consumer.empty"):
            for hit in (1, 2, 3, 5, 8):
                cases.append({"base": b, "behaviour": "5xx_third", "mode": "api", "checks": ["not_a_server_error"], "seed": seed + 1, "delay": {"point": point, "hit": hit}})
    if tier == "thorough":
        extra = []
        for c in cases:
            for s in (2, 3, 4, 5):
                extra.append(dict(c, seed=seed + s))
        cases += extra
    rng.shuffle(cases)
    return cases


def run_shard(spec, emit):
    tier, seed, shard, nshards = spec["tier"], spec["seed"], spec["shard"], spec["nshards"]
    cases = [c for i, c in enumerate(gen_cases(tier, seed)) if i % nshards == shard]
    deadline = time.monotonic() + (85 if tier == "quick" else 300)
    samples = 0
    for case in cases:
        if time.monotonic() > deadline:
            emit.count("cases_skipped_budget")
            continue
        result, verdict, inconclusive = check_case(case)
        if inconclusive:
            emit.inconclusive(f"{inconclusive}: {case}")
            continue
        viols, gt_bad, fired = verdict
        nontrivial = gt_bad or fired
        outcome = f"exit={result.exit_code}|" + ",".join(sorted({f"{e['phase']}:{e['status']}" for e in result.events if e["type"] == "PhaseFinished"}))
        sample = None
        if nontrivial and samples < 2:
            samples += 1
            sample = {"case": case, "base": BASES[case["base"]], "exit_code": result.exit_code, "phases": outcome, "requests": len(result.test_requests()), "fired": result.fired}
        emit.case(sig=f"{case['base']}|{case['behaviour']}|{case.get('fault')}|{case.get('delay')}|{case['mode']}|{outcome}" if nontrivial else None, sample=sample)
        emit.count("cli_runs" if case["mode"] == "cli" else "api_runs")
        if gt_bad:
            emit.count("ground_truth_failures")
        if fired:
            emit.count("faults_fired")
            emit.count("fault@" + result.fired[0]["point"])
        elif case.get("fault"):
            emit.count("faults_not_reached")
        if not gt_bad and not fired and result.exit_code == 0:
            emit.count("clean_runs_exit0")
        emit.count("requests_seen", len(result.test_requests()))
        emit.count("events_seen", len(result.events))
        for key, what in viols:
            emit.viol(
                key,
                what,
                {
                    "case": case,
                    "base": BASES[case["base"]],
                    "exit_code": result.exit_code,
                    "events": [(e["type"], e.get("phase"), e.get("status"), e.get("label"), e.get("error_type")) for e in result.events][-40:],
                    "fired": result.fired,
                    "stdout_tail": result.stdout[-800:],
                },
            )


def replay(case):
    for _ in range(3):
        _, verdict, _ = check_case(case["case"])
        if verdict and verdict[0]:
            return [{"key": k, "what": w} for k, w in verdict[0]]
    return []

"""C14 — configured credentials and overrides reach every request.

Part A: real `st run` invocations (in-process) against the recording API with combinations of --header / --auth /
--set-* / auth providers; the server log is the observation, the recorders identify the probes derived inside the
`ignored_auth` check. Part B: `CachingAuthProvider` / `KeyedCachingAuthProvider` stressed from several threads with a
virtual timer and delays at the guarded cache points; every underlying `get` is logged with its key and time.
"""

from __future__ import annotations

import base64
import copy
import random
import sys
import threading
import time
from http.cookies import SimpleCookie
from urllib.parse import parse_qsl

from vmon.gen import docs

ID = "C14"
LEVEL = "exploration"
RULE = (
    "Part A runs: subsets of {--header X-Custom, --header <declared header, other case>, --auth, --set-query, --set-header, "
    "--set-cookie, --set-path, global auth provider, schema... } x workers {1,2,4} x phases (all, incl. stateful links) x "
    "ignored_auth on/off over a 5-operation API whose operations declare parameters with the same names (required and optional) and "
    "an apiKey security scheme. Part B histories: 2-8 threads x keys from a small set x virtual-time advances x one delay at "
    "each of auth.cache.read/locked/write. Non-trivial (A) = run with >= 1 configured setting and >= 20 requests; (B) = history "
    "with >= 2 threads hitting the same key in the same refresh interval; distinct = distinct (configuration, counts) / "
    "(threads, keys, schedule, calls) signatures"
)
ASSUMPTIONS = [
    "requests created inside the ignored_auth check (recorder children without a transition) may lack / alter exactly the security parameter",
    "an override applies to the operations that declare that parameter",
    "provider refresh is judged in virtual time supplied through the provider's `timer`",
]
MIN_EVALUATIONS = {"quick": 300, "thorough": 5000}
MIN_NONTRIVIAL = {"quick": 100, "thorough": 600}
REACH_FLOORS = {"requests_checked": 1000, "provider_histories": 200, "provider_contended_histories": 100, "engine_runs": 16, "probe_requests_seen": 3}
SHARD_TIMEOUT = {"quick": 900, "thorough": 5400}

CASE_ID_HEADER = "x-schemathesis-testcaseid"


def document():
    ok = docs.OK
    body = {"required": True, "content": {"application/json": {"schema": {"type": "object", "properties": {"n": {"type": "integer"}}, "required": ["n"], "additionalProperties": False}}}}
    sec = [{"ApiKey": []}]
    doc = docs.base(
        {
            "/a": {
                "get": {
                    "operationId": "getA",
                    "security": sec,
                    "parameters": [
                        docs.int_param("x", "query"),
                        {"name": "X-Key", "in": "header", "required": True, "schema": {"type": "string", "pattern": "^[a-z]{3,6}$"}},
                    ],
                    "responses": copy.deepcopy(ok),
                }
            },
            "/b/{id}": {
                "get": {
                    "operationId": "getB",
                    "security": sec,
                    "parameters": [
                        docs.int_param("id", "path"),
                        docs.int_param("x", "query", required=False),
                        {"name": "sid", "in": "cookie", "required": True, "schema": {"type": "string", "pattern": "^[a-z]{4}$"}},
                    ],
                    "responses": copy.deepcopy(ok),
                }
            },
            "/c": {
                "post": {
                    "operationId": "postC",
                    "requestBody": copy.deepcopy(body),
                    "parameters": [{"name": "X-Key", "in": "header", "required": False, "schema": {"type": "string", "pattern": "^[a-z]{3,6}$"}}],
                    "responses": {
                        "201": {
                            "description": "c",
                            "content": {"application/json": {"schema": {"type": "object"}}},
                            "links": {"get": {"operationId": "getB", "parameters": {"id": "$response.body#/id"}}},
                        }
                    },
                }
            },
            "/d": {"get": {"operationId": "getD", "parameters": [{"name": "sid", "in": "cookie", "required": False, "schema": {"type": "string", "pattern": "^[a-z]{4}$"}}], "responses": copy.deepcopy(ok)}},
            "/e": {"get": {"operationId": "getE", "responses": copy.deepcopy(ok)}},
        },
        components={"securitySchemes": {"ApiKey": {"type": "apiKey", "in": "header", "name": "X-API-Key"}}},
    )
    return doc


DECLARES = {
    "query:x": {"GET /a", "GET /b/{id}"},
    "header:X-Key": {"GET /a", "POST /c"},
    "cookie:sid": {"GET /b/{id}", "GET /d"},
    "path:id": {"GET /b/{id}"},
}

RULES = [
    {"when": {"method": "POST", "path_regex": "^/c$"}, "then": {"status": 201, "json": {"id": 5}}},
    # the API enforces its key on the secured operations so that ignored_auth's probes get their 401
    {"when": {"path_regex": "^/(a|b/)", "no_header": "X-API-Key"}, "then": {"status": 401, "json": {}}},
    {"when": {"path_regex": "^/(a|b/)", "header": ["X-API-Key", "SCHEMATHESIS-INVALID-VALUE"]}, "then": {"status": 401, "json": {}}},
]

SETTINGS = {
    "custom_header": ["--header", "X-Custom: custom-value-1"],
    "declared_header_other_case": ["--header", "x-key: userkey"],
    "api_key": ["--header", "X-API-Key: topsecret"],
    "basic": ["--auth", "alice:s3cr3t"],
    "set_query": ["--set-query", "x=4242"],
    "set_header": ["--set-header", "X-Key=ovrd"],
    "set_cookie": ["--set-cookie", "sid=abcd"],
    "set_path": ["--set-path", "id=77"],
    "provider_global": None,
    "provider_filtered": None,
    "provider_requests": None,  # a `requests` auth object registered as the provider
}
EXCLUSIVE = [("declared_header_other_case", "set_header"), ("basic", "provider_global"), ("basic", "provider_filtered"), ("provider_global", "provider_filtered"), ("api_key", "provider_global"), ("basic", "provider_requests"), ("provider_global", "provider_requests"), ("provider_filtered", "provider_requests"), ("api_key", "provider_requests")]


def template_label(doc, r):
    import re

    for template, item in doc["paths"].items():
        if re.fullmatch(re.sub(r"\{[^}]+\}", "[^/]+", template), r["path"]):
            if r["method"].lower() in item:
                return f"{r['method'].upper()} {template}", template
    return None, None


def header_values(r, name):
    return [v for k, v in r["headers"] if k.lower() == name.lower()]


def gen_runs(tier, seed):
    rng = random.Random(f"{seed}:C14")
    names = list(SETTINGS)
    runs = []
    for name in names:
        runs.append([name])
    for _ in range(40 if tier == "quick" else 700):
        k = rng.choice([2, 3, 4, 5])
        chosen = rng.sample(names, k)
        for a, b in EXCLUSIVE:
            if a in chosen and b in chosen:
                chosen.remove(b)
        runs.append(sorted(chosen))
    out = []
    for chosen in runs:
        out.append(
            {
                "settings": chosen,
                "workers": rng.choice([1, 1, 2, 4]),
                "ignored_auth": rng.random() < 0.5,
                "phases": rng.choice(["examples,coverage,fuzzing,stateful", "coverage,fuzzing,stateful", "fuzzing,stateful", "coverage"]),
                "mode": rng.choice(["positive", "all"]),
            }
        )
    return out


def plan(tier, seed):
    nshards = 16 if tier == "quick" else 32
    return [{"tier": tier, "seed": seed, "shard": i, "nshards": nshards} for i in range(nshards)]


PROVIDER_CALLS = []


def make_pre_run(settings):
    def pre_run():
        import schemathesis

        PROVIDER_CALLS.clear()
        if "provider_global" in settings or "provider_filtered" in settings:
            deco = schemathesis.auth()
            if "provider_filtered" in settings:
                deco = deco.apply_to(path_regex="^/(a|b)").skip_for(method="POST")

            @deco
            class TokenAuth:
                def get(self, case, context):
                    PROVIDER_CALLS.append(time.monotonic())
                    return "tok-123"

                def set(self, case, data, context):
                    case.headers = case.headers or {}
                    case.headers["Authorization"] = f"Bearer {data}"

        if "provider_requests" in settings:
            from requests.auth import HTTPBasicAuth

            schemathesis.auth.set_from_requests(HTTPBasicAuth("carol", "pw-456"))

    return pre_run


def execute(run, seed):
    from vmon.instr import engine

    args = []
    for name in run["settings"]:
        if SETTINGS[name]:
            args += SETTINGS[name]
    checks = "not_a_server_error" + (",ignored_auth" if run["ignored_auth"] else "")
    args += [
        "--phases", run["phases"], "--checks", checks, "--max-examples", "4", "--seed", str(seed + 1), "--generation-database", "none",
        "--workers", str(run["workers"]), "--mode", run["mode"], "--suppress-health-check", "all",
    ]
    return engine.run_cli(document(), args, rules=RULES, pre_run=make_pre_run(run["settings"]), timeout=150)


def judge(run, result):
    doc = document()
    viols = []
    settings = set(run["settings"])
    # probes created inside ignored_auth: recorder children without a transition
    probe_ids = set()
    for e in result.events:
        if e["type"] == "ScenarioFinished":
            for cid, c in e["recorder"]["cases"].items():
                if c["parent_id"] is not None and not c["has_transition"]:
                    probe_ids.add(cid)
    checked = 0
    probes = 0
    for r in result.test_requests():
        label, template = template_label(doc, r)
        cid = (header_values(r, CASE_ID_HEADER) or [None])[0]
        is_probe = cid in probe_ids
        if is_probe:
            probes += 1
        checked += 1
        where = f"{r['method']} {r['raw_path'][:60]}"

        def bad(key, text):
            viols.append((key, f"{text} [{where}]"))

        if "custom_header" in settings:
            if header_values(r, "X-Custom") != ["custom-value-1"]:
                bad("C14/configured-header-missing-or-altered", f"X-Custom = {header_values(r, 'X-Custom')}")
        if "declared_header_other_case" in settings:
            got = header_values(r, "X-Key")
            if got != ["userkey"]:
                bad("C14/configured-header-lost-to-generated-value", f"X-Key = {got[:3]} (user gave x-key: userkey)")
        if "api_key" in settings and not is_probe:
            if header_values(r, "X-API-Key") != ["topsecret"]:
                bad("C14/configured-credential-header-missing", f"X-API-Key = {header_values(r, 'X-API-Key')}")
        if "basic" in settings and not is_probe:
            expected = "Basic " + base64.b64encode(b"alice:s3cr3t").decode()
            if header_values(r, "Authorization") != [expected]:
                bad("C14/basic-auth-missing-or-altered", f"Authorization = {header_values(r, 'Authorization')}")
        if label is None:
            continue
        if "set_query" in settings and label in DECLARES["query:x"]:
            got = [v for k, v in parse_qsl(r["query"], keep_blank_values=True) if k == "x"]
            if got != ["4242"]:
                bad("C14/query-override-missing-or-altered", f"x = {got[:3]}")
        if "set_header" in settings and label in DECLARES["header:X-Key"]:
            got = header_values(r, "X-Key")
            if got != ["ovrd"]:
                bad("C14/header-override-missing-or-altered", f"X-Key = {got[:3]}")
        if "set_cookie" in settings and label in DECLARES["cookie:sid"]:
            got = None
            values = []
            for raw in header_values(r, "Cookie"):
                for part in raw.split(";"):
                    name, _, value = part.strip().partition("=")
                    if name == "sid":
                        values.append(value)
            got = values[0] if len(values) == 1 else (None if not values else values)
            if got != "abcd":
                bad("C14/cookie-override-missing-or-altered", f"sid = {got!r} (Cookie: {header_values(r, 'Cookie')[:1]})")
        if "set_path" in settings and label in DECLARES["path:id"]:
            if r["path"] != "/b/77":
                bad("C14/path-override-missing-or-altered", f"path = {r['path'][:40]}")
        if ("provider_global" in settings or "provider_filtered" in settings) and not is_probe:
            applies = "provider_global" in settings or label in {"GET /a", "GET /b/{id}"}
            got = header_values(r, "Authorization")
            if applies and got != ["Bearer tok-123"]:
                bad("C14/auth-provider-data-missing", f"Authorization = {got}")
            if not applies and got == ["Bearer tok-123"]:
                bad("C14/auth-provider-applied-outside-its-filters", f"Authorization = {got}")
        if "provider_requests" in settings and not is_probe:
            got = header_values(r, "Authorization")
            if got != ["Basic Y2Fyb2w6cHctNDU2"]:
                bad("C14/requests-auth-provider-data-missing", f"Authorization = {got} [{label}]")
    if ("provider_global" in settings or "provider_filtered" in settings) and len(PROVIDER_CALLS) > 1:
        viols.append(("C14/auth-provider-fetched-more-than-once-per-interval", f"{len(PROVIDER_CALLS)} fetches within one run (refresh interval 300 s)"))
    return viols, checked, probes


# ------------------------------------------------------------------------------------------ Part B
def provider_history(rng, tier):
    from schemathesis.auths import AuthContext, CachingAuthProvider, KeyedCachingAuthProvider
    from vmon.instr.controller import Controller

    n_threads = rng.choice([2, 3, 4, 8])
    keys = rng.choice([["k"], ["k1", "k2"], ["a", "b", "c"]])
    keyed = len(keys) > 1 or rng.random() < 0.3
    interval = 10
    clock = {"t": 0.0}
    calls = []
    calls_lock = threading.Lock()

    class Underlying:
        def get(self, case, context):
            with calls_lock:
                calls.append((case, clock["t"]))
            time.sleep(rng.choice([0, 0, 0.001]))
            return f"token-{case}-{len(calls)}"

        def set(self, case, data, context):
            pass

    if keyed:
        provider = KeyedCachingAuthProvider(Underlying(), refresh_interval=interval, cache_by_key=lambda case, ctx: case, timer=lambda: clock["t"])
    else:
        provider = CachingAuthProvider(Underlying(), refresh_interval=interval, timer=lambda: clock["t"])
        keys = ["k"]
    point = rng.choice(["auth.cache.read", "auth.cache.locked", "auth.cache.write", None])
    plan_ = {point: [{"hit": rng.randint(1, 4), "action": "delay", "arg": 0.01}]} if point else {}
    controller = Controller(plan=plan_, jitter={"points": ["auth.cache.read", "auth.cache.locked", "auth.cache.write"], "p": 0.3, "delays": [0, 0, 0.001]}, seed=rng.randrange(10**6))
    rounds = rng.choice([1, 2, 3])
    results = []
    contended = n_threads > len(keys)

    def worker(key, barrier):
        barrier.wait()
        for _ in range(3):
            results.append((key, provider.get(key, None)))

    controller.install()
    try:
        for rnd in range(rounds):
            barrier = threading.Barrier(n_threads)
            threads = [threading.Thread(target=worker, args=(keys[i % len(keys)], barrier)) for i in range(n_threads)]
            for t in threads:
                t.start()
            for t in threads:
                t.join(timeout=20)
            # advance virtual time: sometimes inside the interval, sometimes past it
            clock["t"] += rng.choice([1, interval - 1, interval, interval + 5])
    finally:
        controller.uninstall()
    viols = []
    by_key = {}
    for key, t in calls:
        by_key.setdefault(key if keyed else "k", []).append(t)
    for key, times in by_key.items():
        times.sort()
        for a, b in zip(times, times[1:]):
            if b - a < interval:
                viols.append(("C14/auth-provider-fetched-more-than-once-per-interval", f"key {key}: fetched at virtual t={a} and t={b} (interval {interval}), {n_threads} threads, delay at {point}"))
                break
    if any(v is None for _, v in results):
        viols.append(("C14/auth-provider-returned-nothing", "a caller got None"))
    sig = f"{n_threads}|{len(keys)}|{keyed}|{point}|{rounds}|{sorted((k, len(v)) for k, v in by_key.items())}|{controller.signature()[:120]}"
    return viols, contended, sig, {"threads": n_threads, "keys": keys, "keyed": keyed, "delay_at": point, "rounds": rounds, "underlying_calls": [(k, t) for k, t in calls]}


def run_shard(spec, emit):
    tier, seed, shard, nshards = spec["tier"], spec["seed"], spec["shard"], spec["nshards"]
    sys.setswitchinterval(1e-5)
    rng = random.Random(f"{seed}:C14:{shard}")
    # Part B first (cheap)
    n_hist = 40 if tier == "quick" else 2500
    samples = 0
    for _ in range(n_hist):
        viols, contended, sig, detail = provider_history(rng, tier)
        emit.case(sig="B|" + sig if contended else None, sample=detail if contended and samples < 1 else None)
        if contended and samples < 1:
            samples += 1
        emit.count("provider_histories")
        if contended:
            emit.count("provider_contended_histories")
        for key, what in viols:
            emit.viol(key + ":direct", what, detail)
    # Part A
    runs = [r for i, r in enumerate(gen_runs(tier, seed)) if i % nshards == shard]
    deadline = time.monotonic() + (85 if tier == "quick" else 300)
    samples = 0
    for run in runs:
        if time.monotonic() > deadline:
            emit.count("runs_skipped_budget")
            continue
        result = execute(run, seed)
        if result.hung:
            emit.inconclusive(f"watchdog fired: {run}")
            continue
        if result.exit_code == 2 and not result.events:
            emit.count("cli_rejected_combination")
            continue
        viols, checked, probes = judge(run, result)
        nontrivial = checked >= 20
        sample = None
        if nontrivial and samples < 1:
            samples += 1
            sample = {"run": run, "requests_checked": checked, "probe_requests": probes, "exit_code": result.exit_code}
        emit.case(sig=f"A|{run}|{checked // 10}" if nontrivial else None, sample=sample)
        emit.count("engine_runs")
        emit.count("requests_checked", checked)
        emit.count("probe_requests_seen", probes)
        for key, what in viols:
            emit.viol(key, what, {"run": run})


def replay(case):
    if "run" in case:
        result = execute(case["run"], 0)
        viols, _, _ = judge(case["run"], result)
        return [{"key": k, "what": w} for k, w in viols]
    return []

"""C02 — negative-mode test data really violates the schema and is labelled so.

Monitor: cases drawn from `operation.as_strategy(generation_mode=NEGATIVE)` for `modes=[negative]` and from the
combined strategy the engine builds for `modes=[positive, negative]`, with the raw per-location values captured
before serialisation and the per-part labels in `case.meta`. Oracle: independent location schemas
(vmon.oracles.oas_schema) - a part labelled negative must be present and invalid, a part labelled positive valid,
at least one declared part negative; operations with a surely violable input must yield cases, operations with
nothing to violate must be skipped.
"""

from __future__ import annotations

import json
import random
import re
import time

import jsonschema

from vmon.gen import schemas as gen
from vmon.oracles import oas_schema
from vmon.props.c01 import declared_parameters, judge_positive_part

ID = "C02"
LEVEL = "exploration"
RULE = (
    "documents as in C01 (pools of satisfiable schemas in every location, OpenAPI 2.0/3.0/3.1) plus the classes the statement "
    "singles out: `{}` schemas, unconstrained string headers/path parameters, additionalProperties-only objects, optional vs "
    "required bodies, operations without inputs; modes [negative] and [positive, negative]; N draws per operation. Non-trivial = a "
    "drawn negative case; distinct = distinct raw values"
)
ASSUMPTIONS = [
    "'violates the schema' is judged on the generated (pre-coercion) value, the weakest reading of the statement; the stricter wire-level reading is only counted",
    "labels attached to locations for which the operation declares nothing are ignored",
    "whether an operation is violable at all is only judged for the clear cases (typed/constrained/required inputs vs no inputs or `{}`)",
]
MIN_EVALUATIONS = {"quick": 800, "thorough": 20000}
MIN_NONTRIVIAL = {"quick": 400, "thorough": 12000}
REACH_FLOORS = {"negative_parts_judged": 1000, "positive_parts_judged": 100, "operations": 60, "skip_expected": 3}
SHARD_TIMEOUT = {"quick": 900, "thorough": 5400}

KIND = {"path": "path_parameters", "query": "query", "header": "headers", "cookie": "cookies"}


def plan(tier, seed):
    nshards = 16 if tier == "quick" else 32
    return [{"tier": tier, "seed": seed, "shard": i, "nshards": nshards} for i in range(nshards)]


def location_validator(doc, version, location, declared):
    properties = {}
    required = []
    for name, (schema, req) in declared.items():
        properties[name] = oas_schema.convert(schema, doc=doc, version=version, mode="request")
        if req or location == "path":
            required.append(name)
    composite = {"type": "object", "properties": properties, "additionalProperties": False}
    if required:
        composite["required"] = required
    cls = jsonschema.Draft202012Validator if version == "3.1" else jsonschema.Draft4Validator
    return cls(composite, format_checker=oas_schema.FORMAT_CHECKER)


def special_document(rng, kind):
    """Documents for the classes the statement names explicitly. -> (doc, expectation)"""
    ok = {"200": {"description": "ok"}}
    if kind == "no_inputs":
        return {"openapi": "3.0.2", "info": {"title": "t", "version": "1"}, "paths": {"/op": {"get": {"responses": ok}}}}, "skip"
    if kind == "empty_body_schema":
        return {"openapi": "3.0.2", "info": {"title": "t", "version": "1"}, "paths": {"/op": {"post": {"requestBody": {"required": True, "content": {"application/json": {"schema": {}}}}, "responses": ok}}}}, "skip"
    if kind == "string_header_only":
        return {
            "openapi": "3.0.2",
            "info": {"title": "t", "version": "1"},
            "paths": {"/op": {"get": {"parameters": [{"name": "X-A", "in": "header", "required": False, "schema": {"type": "string"}}], "responses": ok}}},
        }, "unknown"
    if kind == "string_path_only":
        return {
            "openapi": "3.0.2",
            "info": {"title": "t", "version": "1"},
            "paths": {"/op/{p}": {"get": {"parameters": [{"name": "p", "in": "path", "required": True, "schema": {"type": "string"}}], "responses": ok}}},
        }, "skip"
    if kind == "string_path_plus_int_query":
        return {
            "openapi": "3.0.2",
            "info": {"title": "t", "version": "1"},
            "paths": {
                "/op/{p}": {
                    "get": {
                        "parameters": [{"name": "p", "in": "path", "required": True, "schema": {"type": "string"}}, {"name": "n", "in": "query", "required": True, "schema": {"type": "integer"}}],
                        "responses": ok,
                    }
                }
            },
        }, "cases"
    if kind in ("typelist_31_strings", "typelist_31_mixed"):
        # JSON Schema type lists (OpenAPI 3.1): a list that admits strings cannot be violated by another type in a text
        # location, one that does not can
        if kind == "typelist_31_strings":
            params = [
                {"name": "q1", "in": "query", "required": True, "schema": {"type": ["string", "null"]}},
                {"name": "p", "in": "path", "required": True, "schema": {"type": ["string", "integer"]}},
                {"name": "n", "in": "query", "required": True, "schema": {"type": "integer", "minimum": 0}},
            ]
        else:
            params = [
                {"name": "q1", "in": "query", "required": True, "schema": {"type": ["integer", "null"], "minimum": 3}},
                {"name": "p", "in": "path", "required": True, "schema": {"type": ["string", "null"], "minLength": 2}},
                {"name": "X-A", "in": "header", "required": False, "schema": {"type": ["boolean", "string"]}},
            ]
        return {
            "openapi": "3.1.0",
            "info": {"title": "t", "version": "1"},
            "paths": {"/op/{p}": {"get": {"parameters": params, "responses": ok}}},
        }, "cases"
    if kind == "nullable_string_path":
        # a nullable string in the path: every scalar reads as a valid string there
        return {
            "openapi": "3.0.2",
            "info": {"title": "t", "version": "1"},
            "paths": {
                "/op/{p}": {
                    "get": {
                        "parameters": [
                            {"name": "p", "in": "path", "required": True, "schema": {"type": "string", "minLength": 2, "nullable": True}},
                            {"name": "n", "in": "query", "required": True, "schema": {"type": "integer", "minimum": 0}},
                        ],
                        "responses": ok,
                    }
                }
            },
        }, "cases"
    if kind in ("mixed_headers_only", "mixed_cookies_only"):
        # one plain string next to a violable parameter in the same location, and nothing else to violate
        where = "header" if kind == "mixed_headers_only" else "cookie"
        return {
            "openapi": "3.0.2",
            "info": {"title": "t", "version": "1"},
            "paths": {
                "/op": {
                    "get": {
                        "parameters": [
                            {"name": "X-A" if where == "header" else "ca", "in": where, "required": False, "schema": {"type": "string"}},
                            {"name": "X-N" if where == "header" else "cn", "in": where, "required": True, "schema": {"type": "integer", "minimum": 1, "maximum": 9}},
                        ],
                        "responses": ok,
                    }
                }
            },
        }, "cases"
    if kind == "nullable_exclusive_body":
        # (known finding: the only mutation of this body is `not: {anyOf: [...]}`, which the dependency cannot generate from)
        return {
            "openapi": "3.0.2",
            "info": {"title": "t", "version": "1"},
            "paths": {"/op": {"post": {"requestBody": {"required": True, "content": {"application/json": {"schema": {"type": "number", "maximum": 0, "exclusiveMaximum": True, "nullable": True}}}}, "responses": ok}}},
        }, "cases"
    if kind == "nullable_text_locations":
        # nullable parameters become anyOf[typed, null]: the text form of a value must be read against both branches
        return {
            "openapi": "3.0.2",
            "info": {"title": "t", "version": "1"},
            "paths": {
                "/op/{p}": {
                    "get": {
                        "parameters": [
                            {"name": "q1", "in": "query", "required": True, "schema": {"type": "string", "minLength": 3, "nullable": True}},
                            {"name": "c1", "in": "cookie", "required": True, "schema": {"type": "integer", "minimum": 5, "nullable": True}},
                            {"name": "X-N", "in": "header", "required": True, "schema": {"type": "number", "nullable": True}},
                            {"name": "p", "in": "path", "required": True, "schema": {"type": "integer", "minimum": -1, "maximum": 5}},
                        ],
                        "responses": ok,
                    }
                }
            },
        }, "cases"
    if kind == "nested_combinator_text_locations":
        # the string type sits one combinator deeper (nullable + allOf, anyOf of allOf): text forms of numbers and
        # booleans are still valid strings there
        return {
            "openapi": "3.0.2",
            "info": {"title": "t", "version": "1"},
            "paths": {
                "/op/{p}": {
                    "get": {
                        "parameters": [
                            {"name": "q1", "in": "query", "required": True, "schema": {"nullable": True, "allOf": [{"type": "string", "maxLength": 6}]}},
                            {"name": "c1", "in": "cookie", "required": True, "schema": {"anyOf": [{"allOf": [{"type": "string"}, {"minLength": 2}]}, {"type": "integer", "minimum": 100}]}},
                            {"name": "X-N", "in": "header", "required": True, "schema": {"nullable": True, "oneOf": [{"allOf": [{"type": "string", "minLength": 1, "maxLength": 4}]}]}},
                            {"name": "p", "in": "path", "required": True, "schema": {"type": "integer", "minimum": -1, "maximum": 5}},
                        ],
                        "responses": ok,
                    }
                }
            },
        }, "cases"
    if kind == "string_cookies_only":
        return {
            "openapi": "3.0.2",
            "info": {"title": "t", "version": "1"},
            "paths": {
                "/op": {
                    "get": {
                        "parameters": [
                            {"name": "c1", "in": "cookie", "required": False, "schema": {"type": "string"}},
                            {"name": "c2", "in": "cookie", "required": False, "schema": {"type": "string"}},
                        ],
                        "responses": ok,
                    }
                }
            },
        }, "unknown-but-not-unsatisfiable"
    if kind == "string_cookies_plus_int_query":
        return {
            "openapi": "3.0.2",
            "info": {"title": "t", "version": "1"},
            "paths": {
                "/op": {
                    "get": {
                        "parameters": [
                            {"name": "c1", "in": "cookie", "required": False, "schema": {"type": "string"}},
                            {"name": "n", "in": "query", "required": True, "schema": {"type": "integer"}},
                        ],
                        "responses": ok,
                    }
                }
            },
        }, "cases"
    if kind == "string_headers_plus_int_query":
        return {
            "openapi": "3.0.2",
            "info": {"title": "t", "version": "1"},
            "paths": {
                "/op": {
                    "get": {
                        "parameters": [
                            {"name": "X-A", "in": "header", "required": False, "schema": {"type": "string"}},
                            {"name": "n", "in": "query", "required": True, "schema": {"type": "integer"}},
                        ],
                        "responses": ok,
                    }
                }
            },
        }, "cases"
    if kind == "additional_only_object":
        return {
            "openapi": "3.0.2",
            "info": {"title": "t", "version": "1"},
            "paths": {"/op": {"post": {"requestBody": {"required": True, "content": {"application/json": {"schema": {"type": "object", "additionalProperties": {"type": "integer"}}}}}, "responses": ok}}},
        }, "cases"
    if kind == "optional_body_only":
        return {
            "openapi": "3.0.2",
            "info": {"title": "t", "version": "1"},
            "paths": {"/op": {"post": {"requestBody": {"required": False, "content": {"application/json": {"schema": {"type": "object", "properties": {"a": {"type": "integer"}}, "required": ["a"]}}}}, "responses": ok}}},
        }, "cases"
    raise AssertionError(kind)


TEXT_SPECIALS = {"nested_combinator_text_locations", "nullable_text_locations"}
SPECIALS = ["nested_combinator_text_locations", "no_inputs", "empty_body_schema", "string_header_only", "string_path_only", "string_path_plus_int_query", "additional_only_object", "optional_body_only", "string_cookies_only", "string_cookies_plus_int_query", "string_headers_plus_int_query", "typelist_31_strings", "typelist_31_mixed", "nullable_text_locations", "nullable_exclusive_body", "nullable_string_path", "mixed_headers_only", "mixed_cookies_only"]


def wire_level_validity(doc, version, location, declared_here, value):
    """True: every declared parameter is present where required and its text form conforms under some typed reading,
    nothing undeclared is sent; False: some violation survives; None: not judged (containers, unknown shapes)."""
    def coerce_readings(text):
        # canonical spellings only: what any receiver would read as a number / boolean / null
        out = [text]
        if re.fullmatch(r"-?(0|[1-9][0-9]*)", text):
            out.append(int(text))
        elif re.fullmatch(r"-?(0|[1-9][0-9]*)(\.[0-9]+)?([eE][+-]?[0-9]+)?", text):
            out.append(float(text))
        elif text in ("true", "false"):
            out.append(text == "true")
        elif text == "null":
            out.append(None)
        return out

    if not isinstance(value, dict):
        return None
    for name in value:
        if name not in declared_here:
            return False
    for name, (schema, required) in declared_here.items():
        if name not in value:
            if required:
                return False
            continue
        raw = value[name]
        if isinstance(raw, (dict, list)):
            return None
        if not isinstance(schema, dict) or "$ref" in json.dumps(schema):
            return None
        text = raw if isinstance(raw, str) else "true" if raw is True else "false" if raw is False else "null" if raw is None else str(raw)
        if location == "path" and text == "":
            return False
        readings = coerce_readings(text)
        if not any(oas_schema.is_valid(r, schema, doc=doc, version=version, mode="request") for r in readings):
            return False
    return True


def probe_validity_filter(operation, declared, doc, version, emit, rng):
    """The negative strategy keeps a draw iff the product's own location schema rejects it. That schema is probed with
    strings which the DECLARED schema accepts: a probe it rejects would be sent labelled as negative although it
    conforms to the documentation (invariant at the filter, independent of what the random mutations happen to draw)."""
    import jsonschema
    from hypothesis import strategies as st

    from schemathesis.generation.hypothesis import examples
    from schemathesis.specs.openapi._hypothesis import get_schema_for_location
    from schemathesis.specs.openapi.constants import LOCATION_TO_CONTAINER

    for location in ("query", "header", "cookie", "path"):
        names = [n for n, (sch, _) in declared[location].items() if isinstance(sch, dict) and sch.get("type") == "string" and "pattern" in sch]
        if not names:
            continue
        try:
            product = get_schema_for_location(operation, location, getattr(operation, LOCATION_TO_CONTAINER[location]))
        except Exception:
            continue
        for name in names:
            sub = (product.get("properties") or {}).get(name)
            sch = declared[location][name][0]
            if not isinstance(sub, dict) or "$ref" in json.dumps(sub):
                continue
            lo, hi = sch.get("minLength", 0), sch.get("maxLength")
            strategy = st.from_regex(sch["pattern"]).filter(lambda v: len(v) >= lo and (hi is None or len(v) <= hi))
            probes = set()
            for _ in range(12):
                try:
                    probes.add(examples.generate_one(strategy.filter(lambda v, seen=frozenset(probes): v not in seen)))
                except Exception:
                    break
            for probe in sorted(probes):
                if location in ("header", "cookie") and (not probe.isascii() or not probe.isprintable() or probe != probe.strip()):
                    continue
                if location == "path" and (probe == "" or "/" in probe):
                    continue
                if probe.endswith("\n"):
                    continue  # Python's `$` also matches before a trailing newline, ECMA 262's does not: not judged
                if not oas_schema.is_valid(probe, sch, doc=doc, version=version, mode="request"):
                    continue
                emit.count("filter_probes")
                try:
                    accepted = jsonschema.Draft4Validator(sub).is_valid(probe)
                except Exception:
                    continue
                if not accepted:
                    emit.viol("C02/validity-filter-rejects-a-conforming-value", f"{location}.{name} = {probe!r:.40} conforms to {sch} but the filter schema is {sub}", {"doc": doc})


def surely_violable(declared, bodies):
    for location, params in declared.items():
        for name, (schema, required) in params.items():
            t = schema.get("type")
            if t in ("integer", "number", "boolean", "array") and location != "path":
                return True
            if t in ("integer", "number", "boolean") and location == "path":
                return True
            if required and location in ("query",):
                return True
    for _, schema, _ in bodies:
        if isinstance(schema, dict) and schema.get("type") in ("object", "integer", "array") and schema != {"type": "object"}:
            return True
    return False


def run_shard(spec, emit):
    import hypothesis
    from hypothesis import HealthCheck, Phase, given, settings

    import schemathesis
    from schemathesis.core import NOT_SET
    from schemathesis.core.control import SkipTest
    from schemathesis.core.result import Ok
    from schemathesis.generation import GenerationConfig, GenerationMode
    from schemathesis.generation.hypothesis import strategies
    from schemathesis.generation.meta import ComponentKind
    from vmon.instr.capture import RawCapture

    tier, seed, shard = spec["tier"], spec["seed"], spec["shard"]
    rng = random.Random(f"{seed}:C02:{shard}")
    capture = RawCapture()
    capture.install()
    n_ops = 10 if tier == "quick" else 90
    n_draws = 15 if tier == "quick" else 40
    deadline = time.monotonic() + (85 if tier == "quick" else 300)
    samples = 0
    jobs = [("special", k) for k in SPECIALS if k in TEXT_SPECIALS or rng.random() < (0.6 if tier == "quick" else 1.0)] + [("random", None)] * n_ops
    for op_idx, (jkind, special) in enumerate(jobs):
        if time.monotonic() > deadline:
            break
        both_modes = rng.random() < 0.35
        if jkind == "special":
            doc, expectation = special_document(rng, special)
            version = "3.0"
        else:
            version = rng.choice(["3.0", "3.0", "3.1", "2.0"])
            doc, desc, _ = gen.make_operation_document(rng, version, composite=(tier == "thorough"), negative_friendly=rng.random() < 0.8)
            expectation = None
        declared, bodies, method, template = declared_parameters(doc, version)
        modes = [GenerationMode.POSITIVE, GenerationMode.NEGATIVE] if both_modes else [GenerationMode.NEGATIVE]
        cfg = GenerationConfig(modes=modes)
        try:
            schema = schemathesis.openapi.from_dict(doc)
            schema.generation_config = cfg
            operation = next(r.ok() for r in schema.get_all_operations(generation_config=cfg) if isinstance(r, Ok))
        except Exception as exc:
            emit.viol("C02/generated-document-not-loadable", f"{type(exc).__name__}: {exc}"[:300], {"doc": doc})
            continue
        emit.count("operations")
        probe_validity_filter(operation, declared, doc, version, emit, rng)
        if expectation is None:
            expectation = "cases" if surely_violable(declared, bodies) else "unknown"
        if expectation == "skip":
            emit.count("skip_expected")
        strategy = strategies.combine([operation.as_strategy(generation_mode=mode, generation_config=cfg) for mode in modes])
        seen = []

        @hypothesis.seed(rng.randrange(10**9))
        @settings(max_examples=n_draws * (4 if special in TEXT_SPECIALS else 1), database=None, deadline=None, phases=[Phase.generate], suppress_health_check=list(HealthCheck))
        @given(case=strategy)
        def test(case):
            seen.append((case, capture.take()))

        capture.take()
        outcome = "cases"
        try:
            test()
        except SkipTest:
            outcome = "skip"
        except hypothesis.errors.Unsatisfiable:
            outcome = "unsatisfiable"
        except Exception as exc:
            emit.viol("C02/generation-crashed", f"{type(exc).__name__}: {exc}"[:300], {"doc": doc, "modes": [m.value for m in modes]})
            continue
        context = {"doc": doc, "modes": [m.value for m in modes], "special": special}
        negatives = [c for c, _ in seen if c.meta.generation.mode == GenerationMode.NEGATIVE]
        if not both_modes:
            if expectation == "cases" and outcome != "cases":
                key = f"C02/violable-operation-got-no-negative-cases:{outcome}"
                if any(s.get("type") == "string" and not (set(s) - {"type"}) for s, _ in declared["path"].values()):
                    key += ":unconstrained-string-path-parameter"
                elif any(
                    isinstance(b[1], dict)
                    and (b[1].get("nullable") or b[1].get("x-nullable"))
                    and (isinstance(b[1].get("exclusiveMinimum"), bool) or isinstance(b[1].get("exclusiveMaximum"), bool))
                    for b in bodies
                ):
                    # nullable becomes anyOf[typed, null]; the only mutation of such a body is `not: {anyOf: [...]}`
                    key += ":nullable-body-with-boolean-exclusive-bound"
                emit.viol(key, f"outcome={outcome} although an input can be violated", context)
            if expectation == "unknown-but-not-unsatisfiable" and outcome == "unsatisfiable":
                emit.viol("C02/operation-reported-as-impossible-instead-of-skipped-or-tested", "Unsatisfiable for an operation whose inputs are all optional plain strings", context)
            if expectation == "skip" and outcome != "skip":
                if outcome == "cases":
                    emit.viol("C02/unviolable-operation-got-negative-cases", f"{len(seen)} cases for an operation with nothing to violate", context)
                else:
                    key = "C02/unviolable-operation-reported-as-failure-instead-of-skipped"
                    if special == "string_path_only":
                        key += ":unconstrained-string-path-parameter"
                    emit.viol(key, f"outcome={outcome}", context)
        else:
            if expectation == "skip" and negatives:
                emit.viol("C02/unviolable-operation-got-negative-cases", f"{len(negatives)} negative cases under both modes", context)
        for case, raw in seen:
            viols = []
            mode = case.meta.generation.mode
            if not both_modes and mode != GenerationMode.NEGATIVE:
                viols.append(("C02/case-not-labelled-negative", f"mode={mode}"))
            if mode != GenerationMode.NEGATIVE:
                emit.case(sig=None)
                continue
            labels = {}
            for location, attr in KIND.items():
                info = case.meta.components.get(ComponentKind(attr))
                if info is not None and declared[location]:
                    labels[location] = info.mode
                elif info is not None and info.mode == GenerationMode.NEGATIVE and getattr(case, attr) is None:
                    # nothing is declared for this location and nothing is sent there, yet the case says that part was negated
                    viols.append((f"C02/part-labelled-negative-is-absent:{location}:nothing-declared-there", f"{attr} is None, declared {sorted(k for k, v in declared.items() if v)}"))
            info = case.meta.components.get(ComponentKind.BODY)
            if info is not None and bodies:
                labels["body"] = info.mode
            if not any(m == GenerationMode.NEGATIVE for m in labels.values()):
                viols.append(("C02/negative-case-without-negative-part", f"labels={ {k: v.value for k, v in labels.items()} }"))
            for location, label in labels.items():
                rec = raw.get(location)
                if location == "body":
                    candidates = [b for b in bodies if b[0] == case.media_type] or bodies
                    body_schema, body_required = candidates[0][1], candidates[0][2]
                    if label == GenerationMode.NEGATIVE:
                        if case.body is NOT_SET:
                            viols.append(("C02/absent-optional-body-labelled-negative" if not body_required else "C02/negative-body-absent", "body is NOT_SET but labelled negative"))
                            continue
                        if rec is None:
                            continue
                        emit.count("negative_parts_judged")
                        if oas_schema.is_valid(rec[1], body_schema, doc=doc, version=version, mode="request"):
                            viols.append(("C02/part-labelled-negative-is-valid:body", f"body={rec[1]!r:.100} schema={body_schema}"))
                    else:
                        if rec is None or case.body is NOT_SET:
                            continue
                        emit.count("positive_parts_judged")
                        kws = oas_schema.failing_keywords(rec[1], body_schema, doc=doc, version=version, mode="request")
                        if kws:
                            viols.append((f"C02/part-labelled-positive-is-invalid:body:{'+'.join(sorted(kws))}", f"body={rec[1]!r:.100} schema={body_schema}"))
                    continue
                value = rec[1] if rec else None
                if label == GenerationMode.NEGATIVE:
                    if getattr(case, KIND[location]) is None or value is None:
                        viols.append((f"C02/part-labelled-negative-is-absent:{location}", f"{KIND[location]} is None"))
                        continue
                    emit.count("negative_parts_judged")
                    if rec[0] != "negative":
                        viols.append((f"C02/part-labelled-negative-came-from-positive-generator:{location}", f"{value!r:.100}"))
                    validator = location_validator(doc, version, location, declared[location])
                    if isinstance(value, dict) and any(isinstance(v, str) and v.endswith("\n") and "pattern" in (declared[location].get(n, ({},))[0] or {}) for n, v in value.items()):
                        emit.count("not_judged_trailing_newline_vs_pattern")  # Python `$` vs ECMA 262 `$`
                    elif validator.is_valid(value):
                        viols.append((f"C02/part-labelled-negative-is-valid:{location}", f"{value!r:.120} declared={ {n: s for n, (s, _) in declared[location].items()} }"))
                    else:
                        # the wire-level reading: these locations are text, so a value whose text form conforms (5 for a
                        # parameter that may be a string) is not a violation any server could notice
                        emit.count("negative_parts_invalid_pre_coercion")
                        verdict = wire_level_validity(doc, version, location, declared[location], value)
                        if verdict is True:
                            viols.append((f"C02/part-labelled-negative-conforms-as-text:{location}", f"{value!r:.120} declared={ {n: s for n, (s, _) in declared[location].items()} }"))
                        elif verdict is False:
                            emit.count("negative_parts_invalid_as_text")
                else:
                    emit.count("positive_parts_judged")
                    for key, what in judge_positive_part(doc, version, location, declared[location], value, what="value"):
                        viols.append((key.replace("C01/", "C02/part-labelled-positive-is-invalid:"), what))
            sample = None
            if samples < 2:
                samples += 1
                sample = {"version": version, "labels": {k: v.value for k, v in labels.items()}, "raw": {k: v[1] for k, v in raw.items()}, "declared": {k: {n: s for n, (s, _) in v.items()} for k, v in declared.items() if v}}
            emit.case(sig=f"{op_idx}|{shard}|{hash(repr(sorted((k, repr(v)) for k, v in raw.items())))}", sample=sample)
            for key, what in viols:
                if "length-violated-after-pattern-length-rewrite" in key:
                    key = "C02/part-labelled-positive-is-invalid:length-violated-after-pattern-length-rewrite"
                emit.viol(key, what, dict(context, raw={k: v[1] for k, v in raw.items()}))


def replay(case):
    return []

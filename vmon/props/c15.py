"""C15 — with sanitization on, secrets never appear in any output.

Monitor: every byte a real `st run` emits - console output, JUnit XML, VCR cassette, HAR file - for runs in which
unique canaries travel on every route a secret can take (user --header / --auth / --set-*, URL userinfo, generated
security parameters, response Set-Cookie / token headers). Oracle: with sanitisation on no canary (in any of its
encodings) occurs anywhere; with it off the canaries of the exercised routes are found (otherwise the route was not
exercised and the run is not counted).
"""

from __future__ import annotations

import base64
import copy
import os
import random
import tempfile
import time
from urllib.parse import quote

from vmon.gen import docs

ID = "C15"
LEVEL = "exploration"
RULE = (
    "runs = subsets of routes {Authorization header, X-API-Key header, marker-named header, --auth, --set-query api_key, "
    "--set-header, --set-cookie, URL userinfo, generated apiKey security parameter, response Set-Cookie, response token header} x key "
    "spellings in several cases x sanitize on/off x custom sanitization.extend/configure (through SCHEMATHESIS_HOOKS) x report formats "
    "{vcr, har, junit} x preserve-bytes; the API fails some checks so that failures, curl lines and responses are printed. Non-trivial = "
    "run in which at least one route was exercised (canary seen by the API or sent by it); distinct = distinct (routes, options)"
)
ASSUMPTIONS = [
    "encodings searched: raw, percent-encoded, base64 of the value and of user:password, JSON-escaped",
    "a canary is a 20+ character random token, so an accidental match is impossible",
]
MIN_EVALUATIONS = {"quick": 40, "thorough": 400}
MIN_NONTRIVIAL = {"quick": 40, "thorough": 350}
REACH_FLOORS = {"routes_exercised": 60, "artefact_bytes_scanned": 100000, "unsanitized_runs_with_canaries_found": 3}
SHARD_TIMEOUT = {"quick": 900, "thorough": 5400}

ROUTES = ["schema_location_userinfo", "authorization_header", "api_key_header", "marker_header", "basic_auth", "set_query", "set_header", "set_cookie", "url_userinfo", "generated_security", "response_set_cookie", "response_token_header"]
EXCLUSIVE = [("authorization_header", "basic_auth"), ("api_key_header", "generated_security")]


def document():
    ok = {"200": {"description": "ok", "content": {"application/json": {"schema": {"type": "object"}}}}}
    return docs.base(
        {
            "/a": {
                "get": {
                    "operationId": "getA",
                    "security": [{"ApiKey": []}],
                    "parameters": [
                        {"name": "api_key", "in": "query", "required": False, "schema": {"type": "string"}},
                        {"name": "n", "in": "query", "required": True, "schema": {"type": "integer"}},
                        # sensitive only under a user-extended marker list ("zzz")
                        {"name": "tenantzzzid", "in": "query", "required": False, "schema": {"type": "string"}},
                        {"name": "X-Secret", "in": "header", "required": False, "schema": {"type": "string"}},
                        {"name": "session", "in": "cookie", "required": False, "schema": {"type": "string"}},
                    ],
                    "responses": copy.deepcopy(ok),
                }
            },
            "/b": {"post": {"operationId": "postB", "requestBody": {"required": True, "content": {"application/json": {"schema": {"type": "object", "properties": {"v": {"type": "integer"}}, "required": ["v"]}}}}, "responses": copy.deepcopy(ok)}},
        },
        components={"securitySchemes": {"ApiKey": {"type": "apiKey", "in": "header", "name": "X-API-Key"}}},
    )


def canary(rng, tag):
    alphabet = "ABCDEFGHJKLMNPQRSTUVWXYZabcdefghijkmnopqrstuvwxyz23456789"
    return f"cnry{tag}" + "".join(rng.choice(alphabet) for _ in range(20))


def encodings(value, user=None):
    out = {value, quote(value, safe=""), base64.b64encode(value.encode()).decode()}
    if user is not None:
        out.add(base64.b64encode(f"{user}:{value}".encode()).decode())
    # the value alone as the user name of Basic credentials (`http://token@host`)
    out.add(base64.b64encode(f"{value}:".encode()).decode())
    return out


def plan(tier, seed):
    nshards = 16 if tier == "quick" else 32
    return [{"tier": tier, "seed": seed, "shard": i, "nshards": nshards} for i in range(nshards)]


def gen_runs(tier, seed):
    rng = random.Random(f"{seed}:C15")
    runs = []
    n = 96 if tier == "quick" else 900
    for i in range(n):
        routes = rng.sample(ROUTES, rng.randint(2, 6))
        for a, b in EXCLUSIVE:
            if a in routes and b in routes:
                routes.remove(b)
        runs.append(
            {
                "routes": sorted(routes),
                "sanitize": rng.random() < 0.75,
                "custom": rng.choice([None, None, "extend", "configure"]),
                "preserve_bytes": rng.random() < 0.4,
                "spelling": rng.choice(["canonical", "upper", "lower"]),
                "workers": rng.choice([1, 2]),
                "idx": i,
            }
        )
    return runs


def spell(name, how):
    return {"canonical": name, "upper": name.upper(), "lower": name.lower()}[how]


def execute(run, seed, scratch):
    from vmon.instr import engine

    rng = random.Random(f"{seed}:C15:{run['idx']}")
    secrets = {}  # route -> (canary, user|None)
    args = []
    routes = set(run["routes"])
    how = run["spelling"]
    rules = []
    response_headers = {}
    def opt(long, short, value):
        # the ways a command line can spell an option and its value
        form = rng.choice(["separate", "separate", "equals", "short", "attached"])
        if form == "separate":
            return [long, value]
        if form == "equals":
            return [f"{long}={value}"]
        if form == "short":
            return [short, value]
        return [f"{short}{value}"]

    if "authorization_header" in routes:
        secrets["authorization_header"] = (canary(rng, "auth"), None)
        args += opt("--header", "-H", f"{spell('Authorization', how)}: Bearer {secrets['authorization_header'][0]}")
    if "api_key_header" in routes:
        secrets["api_key_header"] = (canary(rng, "apik"), None)
        args += opt("--header", "-H", f"{spell('X-API-Key', how)}: {secrets['api_key_header'][0]}")
    if "marker_header" in routes:
        secrets["marker_header"] = (canary(rng, "mark"), None)
        args += opt("--header", "-H", f"{spell('X-My-Session-Token', how)}: {secrets['marker_header'][0]}")
    if "basic_auth" in routes:
        secrets["basic_auth"] = (canary(rng, "basc"), "alice")
        args += opt("--auth", "-a", f"alice:{secrets['basic_auth'][0]}")
    if "set_query" in routes:
        secrets["set_query"] = (canary(rng, "qury"), None)
        args += ["--set-query", f"api_key={secrets['set_query'][0]}"]
    if run["custom"] == "extend":
        # a secret that only the user's own marker makes sensitive, travelling in the URL
        secrets["custom_marker_query"] = (canary(rng, "cust"), None)
        args += ["--set-query", f"tenantzzzid={secrets['custom_marker_query'][0]}"]
    if "set_header" in routes:
        secrets["set_header"] = (canary(rng, "shdr"), None)
        args += ["--set-header", f"X-Secret={secrets['set_header'][0]}"]
    if "set_cookie" in routes:
        secrets["set_cookie"] = (canary(rng, "scki"), None)
        args += ["--set-cookie", f"session={secrets['set_cookie'][0]}"]
    schema_userinfo = None
    if "schema_location_userinfo" in routes:
        # the schema itself is fetched with credentials in its URL
        secrets["schema_location_userinfo"] = (canary(rng, "sloc"), "carol")
        schema_userinfo = f"carol:{secrets['schema_location_userinfo'][0]}"
    userinfo = None
    if "url_userinfo" in routes:
        # the user name may be empty (`http://:password@host`) or absent (`http://token@host`)
        user = rng.choice(["bob", "bob", "", None])
        secrets["url_userinfo"] = (canary(rng, "uinf"), user)
        userinfo = secrets["url_userinfo"][0] if user is None else f"{user}:{secrets['url_userinfo'][0]}"
    if "response_set_cookie" in routes:
        secrets["response_set_cookie"] = (canary(rng, "rcki"), None)
        response_headers["Set-Cookie"] = f"sid={secrets['response_set_cookie'][0]}; Path=/"
        if rng.random() < 0.6:
            # several header lines with the same sensitive name: every one of them is a secret
            secrets["response_set_cookie_2"] = (canary(rng, "rck2"), None)
            secrets["response_set_cookie_3"] = (canary(rng, "rck3"), None)
            response_headers["Set-Cookie"] = [response_headers["Set-Cookie"], f"csrf={secrets['response_set_cookie_2'][0]}; Path=/", f"t={secrets['response_set_cookie_3'][0]}"]
    if "response_token_header" in routes:
        secrets["response_token_header"] = (canary(rng, "rtok"), None)
        response_headers["X-Auth-Token"] = secrets["response_token_header"][0]
        if rng.random() < 0.5:
            secrets["response_token_header_2"] = (canary(rng, "rtk2"), None)
            response_headers["X-Auth-Token"] = [response_headers["X-Auth-Token"], secrets["response_token_header_2"][0]]
    # the API fails some checks so that failures (curl line, response) are printed
    rules.append({"when": {"path_regex": "^/a", "nth": 2}, "then": {"status": 500, "json": {"error": "boom"}, "headers": response_headers}})
    rules.append({"when": {"path_regex": "^/b", "nth": 3}, "then": {"status": 500, "json": {"error": "boom"}, "headers": response_headers}})
    default = {"status": 200, "json": {}, "headers": response_headers}
    report_dir = os.path.join(scratch, f"reports-{run['idx']}")
    os.makedirs(report_dir, exist_ok=True)
    args += ["--report", "vcr,har,junit", "--report-dir", report_dir, "--max-examples", "4", "--seed", str(seed + 1), "--generation-database", "none", "--workers", str(run["workers"]), "--checks", "not_a_server_error"]
    if not run["sanitize"]:
        args += ["--output-sanitize", "false"]
    if run["preserve_bytes"]:
        args += ["--report-preserve-bytes"]
    hooks_file = None
    pre_run = None
    if run["custom"]:
        # custom key/marker lists, loaded the way users do it
        def pre_run():
            import schemathesis

            if run["custom"] == "extend":
                schemathesis.sanitization.extend(keys_to_sanitize=["x-custom-a"], sensitive_markers=["zzz"])
            else:
                schemathesis.sanitization.configure(replacement="[Gone]")

    result = engine.run_cli(document(), args, rules=rules, default=default, report_dir=report_dir, timeout=150, url_userinfo=userinfo, pre_run=pre_run, schema_userinfo=schema_userinfo, url_option_form=rng.choice(["separate", "equals"]))
    # restore defaults for the next run in this process
    from schemathesis.core.output import sanitization

    sanitization._DEFAULT_SANITIZATION_CONFIG = sanitization.SanitizationConfig()
    return result, secrets


def judge(run, result, secrets):
    viols = []
    artefacts = {"stdout": result.stdout.encode("utf-8", "replace"), "stderr": result.stderr.encode("utf-8", "replace")}
    for name, data in result.files.items():
        artefacts["file:" + name.rsplit(".", 1)[-1]] = data
    # generated security parameter values seen by the API are secrets too
    generated = set()
    exercised = set()
    requests_ = result.test_requests()
    for r in requests_:
        for k, v in r["headers"]:
            if k.lower() == "x-api-key" and "api_key_header" not in secrets and len(v) >= 6 and v.isascii() and v.isalnum():
                generated.add(v)
    if "generated_security" in run["routes"] and generated:
        exercised.add("generated_security")
    # which routes reached the wire
    wire = "\n".join(r["raw_path"] + "\n" + "\n".join(f"{k}: {v}" for k, v in r["headers"]) for r in requests_)
    for route, (value, user) in secrets.items():
        if route.startswith("response_") or route == "schema_location_userinfo":
            exercised.add(route)
        elif any(enc in wire for enc in encodings(value, user)):
            exercised.add(route)
    total = sum(len(v) for v in artefacts.values())
    found_unsanitized = 0
    for route in sorted(exercised):
        if route == "generated_security":
            candidates = [(g, None) for g in sorted(generated)[:5]]
        else:
            candidates = [secrets[route]]
        for value, user in candidates:
            for name, data in artefacts.items():
                hit = None
                for enc in encodings(value, user):
                    if enc.encode() in data:
                        hit = enc
                        break
                if hit is None and run["preserve_bytes"]:
                    pass
                if hit is not None:
                    if run["sanitize"]:
                        where = data.find(hit.encode())
                        snippet = data[max(0, where - 60): where + 30].decode("latin-1").replace("\n", "\\n")
                        key = f"C15/secret-in-{name}:route-{route}"
                        if name == "file:yaml" and ("command: '" in snippet or "command:" in data[max(0, where - 400): where].decode("latin-1").split("\n")[-1]):
                            key = "C15/secret-in-file:yaml:echoed-command-line"
                        viols.append((key, f"...{snippet}..."))
                    else:
                        found_unsanitized += 1
    return viols, exercised, total, found_unsanitized


def run_shard(spec, emit):
    tier, seed, shard, nshards = spec["tier"], spec["seed"], spec["shard"], spec["nshards"]
    runs = [r for i, r in enumerate(gen_runs(tier, seed)) if i % nshards == shard]
    scratch = os.environ.get("VERIF_SCRATCH") or tempfile.mkdtemp(prefix="verif-c15-")
    deadline = time.monotonic() + (85 if tier == "quick" else 300)
    samples = 0
    for run in runs:
        if time.monotonic() > deadline:
            emit.count("runs_skipped_budget")
            continue
        result, secrets = execute(run, seed, scratch)
        if result.hung:
            emit.inconclusive(f"watchdog fired: {run}")
            continue
        if result.exit_code == 2 and not result.events:
            emit.count("cli_rejected_combination")
            continue
        viols, exercised, total, found_unsanitized = judge(run, result, secrets)
        emit.count("routes_exercised", len(exercised))
        emit.count("artefact_bytes_scanned", total)
        for route in exercised:
            emit.count("route:" + route)
        if not run["sanitize"] and found_unsanitized:
            emit.count("unsanitized_runs_with_canaries_found")
        nontrivial = bool(exercised)
        sample = None
        if nontrivial and samples < 1:
            samples += 1
            sample = {"run": run, "routes_exercised": sorted(exercised), "artefacts": sorted(result.files), "bytes_scanned": total}
        emit.case(sig=f"{run['routes']}|{run['sanitize']}|{run['custom']}|{run['preserve_bytes']}|{run['spelling']}" if nontrivial else None, sample=sample)
        for key, what in viols:
            emit.viol(key, what, {"run": run})


def replay(case):
    return []

"""C06 — the HTTP request on the wire is exactly the generated test case.

Monitor: pairs (generated case incl. the raw per-location values captured before serialisation, request as received)
for the requests transport (recording loopback server: raw request line, headers, body bytes) and for the WSGI
transport (a capture app reading `environ`). Oracle: decoders for each declared serialisation style written from the
OpenAPI specification (vmon.props.c06.decode_*), percent-decoding of the path, JSON/form/text body round trip,
Content-Type, and the list of headers a client may add.
"""

from __future__ import annotations

import json
import random
import re
import time
from urllib.parse import parse_qsl, unquote, unquote_plus

from vmon.api.server import RecordingServer, Script

ID = "C06"
LEVEL = "exploration"
RULE = (
    "one operation per (location x style x explode x type in {primitive, array, object}) for OpenAPI 3.x (query: form, "
    "spaceDelimited, pipeDelimited, deepObject; path: simple, label, matrix; header: simple; cookie: form), per collectionFormat for "
    "2.0 (csv, ssv, tsv, pipes, multi), JSON `content` parameters; primitive strings biased to reserved characters, %, +, space, '.', "
    "'..', empty, non-ASCII; bodies JSON / urlencoded form / text; base URLs with and without a base path and trailing slash; "
    "N generated cases per operation on the requests transport, a share on WSGI. Non-trivial = a case whose value contains a "
    "reserved/non-ASCII character or a structured (array/object) parameter; distinct = distinct (operation, wire request)"
)
ASSUMPTIONS = [
    "array items and object values come from an alphabet without the style's own delimiter (the styles are inherently ambiguous otherwise)",
    "values are compared up to string coercion (True/true, None/null, 1.0/1)",
    "cookie arrays/objects without explode:false have no defined wire form and are not generated",
]
MIN_EVALUATIONS = {"quick": 1500, "thorough": 15000}
MIN_NONTRIVIAL = {"quick": 800, "thorough": 10000}
REACH_FLOORS = {"requests_compared": 1000, "wsgi_requests_compared": 100, "raw:path": 300, "raw:query": 300, "raw:header": 100, "raw:body": 200}
SHARD_TIMEOUT = {"quick": 900, "thorough": 5400}

ALLOWED_CLIENT_HEADERS = {"host", "user-agent", "accept", "accept-encoding", "connection", "content-length", "content-type", "cookie", "x-schemathesis-testcaseid"}
ITEM = {"type": "string", "pattern": "^[a-z0-9_]{1,5}$"}
INT_ITEM = {"type": "integer", "minimum": 0, "maximum": 999}
HOSTILE_STRING = {"type": "string", "maxLength": 12}


def plan(tier, seed):
    nshards = 16 if tier == "quick" else 32
    return [{"tier": tier, "seed": seed, "shard": i, "nshards": nshards} for i in range(nshards)]


def operations_matrix():
    """[(key, version, parameter definition dict, type kind)]"""
    out = []
    arr = {"type": "array", "items": ITEM, "minItems": 1, "maxItems": 3}
    iarr = {"type": "array", "items": INT_ITEM, "minItems": 1, "maxItems": 3}
    obj = {"type": "object", "properties": {"r": ITEM, "g": INT_ITEM}, "required": ["r", "g"], "additionalProperties": False}
    for style in ("form", "spaceDelimited", "pipeDelimited", "deepObject", None):
        for explode in (True, False, None):
            for kind, schema in (("primitive", HOSTILE_STRING), ("array", arr), ("intarray", iarr), ("object", obj)):
                if style == "deepObject" and kind != "object":
                    continue
                if style in ("spaceDelimited", "pipeDelimited") and (kind not in ("array", "intarray") or explode is not False):
                    continue
                p = {"name": "v", "in": "query", "required": True, "schema": schema}
                if style:
                    p["style"] = style
                if explode is not None:
                    p["explode"] = explode
                out.append((f"query/{style}/{explode}/{kind}", "3.0", p, kind))
    for style in ("simple", "label", "matrix", None):
        for explode in (True, False, None):
            for kind, schema in (("primitive", HOSTILE_STRING), ("array", arr), ("object", obj)):
                p = {"name": "v", "in": "path", "required": True, "schema": dict(schema, **({"minLength": 1} if kind == "primitive" else {}))}
                if style:
                    p["style"] = style
                if explode is not None:
                    p["explode"] = explode
                out.append((f"path/{style}/{explode}/{kind}", "3.0", p, kind))
    for explode in (True, False, None):
        for kind, schema in (("primitive", {"type": "string", "pattern": "^[ -~]{0,10}$"}), ("array", arr), ("object", obj), ("int", INT_ITEM), ("bool", {"type": "boolean"})):
            p = {"name": "X-V", "in": "header", "required": True, "schema": schema}
            if explode is not None:
                p["explode"] = explode
            out.append((f"header/simple/{explode}/{kind}", "3.0", p, kind))
    for kind, schema in (("primitive", ITEM), ("int", INT_ITEM), ("array", arr), ("object", obj)):
        p = {"name": "v", "in": "cookie", "required": True, "schema": schema}
        if kind in ("array", "object"):
            p["explode"] = False
        out.append((f"cookie/form/{p.get('explode')}/{kind}", "3.0", p, kind))
    out.append(("query/content-json", "3.0", {"name": "v", "in": "query", "required": True, "content": {"application/json": {"schema": obj}}}, "json"))
    for fmt in ("csv", "ssv", "tsv", "pipes", "multi", None):
        for where in ("query", "path", "header"):
            if fmt == "multi" and where != "query":
                continue
            p = {"name": "v" if where != "header" else "X-V", "in": where, "required": True, "type": "array", "items": {"type": "string", "pattern": "^[a-z0-9_]{1,5}$"}, "minItems": 1, "maxItems": 3}
            if fmt:
                p["collectionFormat"] = fmt
            out.append((f"{where}/collectionFormat-{fmt}", "2.0", p, "array"))
    return out


def decode_multipart(content_type, payload):
    """Field name -> text value, read with the boundary the Content-Type header announces (RFC 7578)."""
    match = re.search(r'boundary="?([^";]+)"?', content_type)
    if not match:
        raise ValueError(f"no boundary in {content_type!r}")
    delimiter = b"--" + match.group(1).encode("latin-1")
    out = {}
    sections = payload.split(delimiter)
    if len(sections) < 2 or not sections[-1].lstrip().startswith(b"--"):
        raise ValueError("closing delimiter missing")
    for section in sections[1:-1]:
        section = section[2:] if section.startswith(b"\r\n") else section
        head, _, value = section.partition(b"\r\n\r\n")
        value = value[:-2] if value.endswith(b"\r\n") else value
        name = re.search(rb'name="((?:[^"\\]|\\.)*)"', head)
        if not name:
            raise ValueError(f"part without a name: {head[:60]!r}")
        out[name.group(1).decode("utf-8")] = value.decode("utf-8")
    return out


def make_doc(version, param, body_kind, base_path, trailing_slash=False):
    template = "/op/{v}/end" if param["in"] == "path" else "/op"
    if trailing_slash == "colon":
        # a colon in the first segment (custom methods): not a URL scheme
        template = "/{v}:cancel" if param["in"] == "path" else "/v1:ping"
    elif trailing_slash:
        # a template may end in a slash (and the variable may be its last segment before it)
        template = "/op/{v}/" if param["in"] == "path" else "/op/"
    op = {"parameters": [param], "responses": {"200": {"description": "ok"}}}
    method = "get"
    body_schema = None
    if body_kind:
        method = "post"
        if body_kind == "json":
            body_schema = {"type": "object", "properties": {"s": HOSTILE_STRING, "n": {"type": "number"}, "l": {"type": "array", "items": {"type": "boolean"}}}, "required": ["s"]}
            media = "application/json"
        elif body_kind == "form":
            body_schema = {"type": "object", "properties": {"a": HOSTILE_STRING, "b": INT_ITEM}, "required": ["a", "b"], "additionalProperties": False}
            media = "application/x-www-form-urlencoded"
        elif body_kind == "jsonfalsy":
            # bodies that are falsy in Python are bodies all the same
            body_schema = {"enum": [0, False, "", [], {}, 0.0]}
            media = "application/json"
        elif body_kind == "multipart":
            body_schema = {"type": "object", "properties": {"a": HOSTILE_STRING, "b": INT_ITEM}, "required": ["a", "b"], "additionalProperties": False}
            media = "multipart/form-data"
        else:
            body_schema = {"type": "string", "maxLength": 20}
            media = "text/plain"
        if version == "2.0":
            if body_kind in ("form", "multipart"):
                op["parameters"] = [param] + [{"name": "a", "in": "formData", "required": True, "type": "string", "maxLength": 12}, {"name": "b", "in": "formData", "required": True, "type": "integer", "minimum": 0, "maximum": 999}]
            else:
                op["parameters"] = [param, {"name": "payload", "in": "body", "required": True, "schema": body_schema}]
            op["consumes"] = [media]
        else:
            op["requestBody"] = {"required": True, "content": {media: {"schema": body_schema}}}
    if version == "2.0":
        doc = {"swagger": "2.0", "info": {"title": "t", "version": "1"}, "paths": {template: {method: op}}}
        if base_path:
            doc["basePath"] = base_path
    else:
        doc = {"openapi": "3.0.2", "info": {"title": "t", "version": "1"}, "paths": {template: {method: op}}}
    return doc, template, method


# ------------------------------------------------------------------------------------------ reference decoders
class JsonValue:
    """A decoded value that keeps its JSON types (parameters with `content: application/json`)."""

    def __init__(self, value):
        self.value = value


def coerce_equal(generated, decoded):
    """Equality up to the string coercion inherent to URLs/headers."""
    if isinstance(decoded, JsonValue):
        return json.loads(json.dumps(generated)) == decoded.value
    if isinstance(generated, dict):
        return isinstance(decoded, dict) and set(map(str, generated)) == set(decoded) and all(coerce_equal(v, decoded[str(k)]) for k, v in generated.items())
    if isinstance(generated, (list, tuple)):
        return isinstance(decoded, list) and len(generated) == len(decoded) and all(coerce_equal(g, d) for g, d in zip(generated, decoded))
    if generated is True:
        return decoded in ("true", "True")
    if generated is False:
        return decoded in ("false", "False")
    if generated is None:
        return decoded in ("null", "None", "")
    if isinstance(generated, float) and generated == int(generated) and str(decoded) == str(int(generated)):
        return True
    return str(generated) == decoded


def pairs_to_object(flat):
    if len(flat) % 2:
        return None
    return {flat[i]: flat[i + 1] for i in range(0, len(flat), 2)}


def decode_query(param, kind, query_string):
    """-> decoded value or raises ValueError"""
    pairs = parse_qsl(query_string, keep_blank_values=True)
    name = param["name"]
    style = param.get("style") or "form"
    explode = param.get("explode")
    if explode is None:
        explode = style == "form"
    fmt = param.get("collectionFormat")
    values = [v for k, v in pairs if k == name]
    if "content" in param:
        if len(values) != 1:
            raise ValueError(f"{len(values)} values for {name}")
        return JsonValue(json.loads(values[0]))
    if "collectionFormat" in param or param.get("type") == "array":
        if fmt == "multi":
            return values
        if len(values) != 1:
            raise ValueError(f"{len(values)} values for {name}")
        sep = {"csv": ",", "ssv": " ", "tsv": "\t", "pipes": "|", None: ","}[fmt]
        return values[0].split(sep)
    if kind == "primitive":
        if len(values) != 1:
            raise ValueError(f"{len(values)} values for {name}: {pairs}")
        return values[0]
    if kind in ("array", "intarray"):
        if style == "form" and explode:
            return values
        if len(values) != 1:
            raise ValueError(f"{len(values)} values for {name}")
        sep = {"form": ",", "spaceDelimited": " ", "pipeDelimited": "|"}[style]
        return values[0].split(sep)
    if kind == "object":
        if style == "deepObject":
            out = {}
            for k, v in pairs:
                m = re.fullmatch(re.escape(name) + r"\[([^\]]*)\]", k)
                if m:
                    out[m.group(1)] = v
            return out
        if explode:
            return {k: v for k, v in pairs}
        if len(values) != 1:
            raise ValueError(f"{len(values)} values for {name}")
        obj = pairs_to_object(values[0].split(","))
        if obj is None:
            raise ValueError("odd number of items")
        return obj
    raise ValueError(kind)


def decode_path(param, kind, segment):
    """`segment` is the raw (still percent-encoded) path segment."""
    name = param["name"]
    style = param.get("style") or "simple"
    explode = bool(param.get("explode"))
    fmt = param.get("collectionFormat")
    text = unquote(segment)
    if "collectionFormat" in param or param.get("type") == "array":
        sep = {"csv": ",", "ssv": " ", "tsv": "\t", "pipes": "|", None: ","}[fmt]
        return text.split(sep)
    if style == "simple":
        if kind == "primitive":
            return text
        if kind == "array":
            return text.split(",")
        if explode:
            return dict(item.split("=", 1) for item in text.split(","))
        return pairs_to_object(text.split(","))
    if style == "label":
        if not text.startswith("."):
            raise ValueError("label style must start with '.'")
        text = text[1:]
        if kind == "primitive":
            return text
        sep = "." if explode else ","
        if kind == "array":
            return text.split(sep)
        if explode:
            return dict(item.split("=", 1) for item in text.split("."))
        return pairs_to_object(text.split(","))
    if style == "matrix":
        if not text.startswith(";"):
            raise ValueError("matrix style must start with ';'")
        if kind == "primitive":
            key, _, value = text[1:].partition("=")
            if key != name:
                raise ValueError(f"matrix name {key}")
            return value
        if kind == "array":
            if explode:
                out = []
                for item in text[1:].split(";"):
                    key, _, value = item.partition("=")
                    if key != name:
                        raise ValueError(f"matrix name {key}")
                    out.append(value)
                return out
            key, _, value = text[1:].partition("=")
            if key != name:
                raise ValueError(f"matrix name {key}")
            return value.split(",")
        if explode:
            return dict(item.split("=", 1) for item in text[1:].split(";"))
        key, _, value = text[1:].partition("=")
        if key != name:
            raise ValueError(f"matrix name {key}")
        return pairs_to_object(value.split(","))
    raise ValueError(style)


def decode_header(param, kind, value):
    explode = bool(param.get("explode"))
    fmt = param.get("collectionFormat")
    if "collectionFormat" in param or param.get("type") == "array":
        sep = {"csv": ",", "ssv": " ", "tsv": "\t", "pipes": "|", None: ","}[fmt]
        return value.split(sep)
    if kind in ("primitive", "int", "bool"):
        return value
    if kind == "array":
        return [v.strip() for v in value.split(",")]
    if explode:
        return dict(item.strip().split("=", 1) for item in value.split(","))
    return pairs_to_object([v.strip() for v in value.split(",")])


def decode_cookie(param, kind, cookie_header):
    jar = {}
    for part in cookie_header.split(";"):
        k, _, v = part.strip().partition("=")
        jar[k] = v
    value = jar.get(param["name"])
    if value is None:
        raise ValueError("cookie absent")
    if len(value) >= 2 and value[0] == value[-1] == '"':
        # quoted-string form with octal escapes, as written by cookie libraries for values containing separators
        from http.cookies import _unquote

        value = _unquote(value)
    if kind in ("primitive", "int"):
        return value
    if kind == "array":
        return value.split(",")
    return pairs_to_object(value.split(","))


# ------------------------------------------------------------------------------------------ WSGI capture
class WsgiCapture:
    def __init__(self):
        self.last = None

    def __call__(self, environ, start_response):
        length = int(environ.get("CONTENT_LENGTH") or 0)
        body = environ["wsgi.input"].read(length) if length else b""
        self.last = {
            "method": environ["REQUEST_METHOD"],
            "path": environ.get("PATH_INFO", ""),
            "raw_uri": environ.get("RAW_URI") or environ.get("REQUEST_URI"),
            "query": environ.get("QUERY_STRING", ""),
            "headers": {k[5:].replace("_", "-").lower(): v for k, v in environ.items() if k.startswith("HTTP_")},
            "content_type": environ.get("CONTENT_TYPE"),
            "body": body,
        }
        start_response("200 OK", [("Content-Type", "application/json"), ("Content-Length", "2")])
        return [b"{}"]


class AsgiCapture:
    """Bare ASGI application that records the raw scope of the last request."""

    def __init__(self):
        self.last = None

    async def __call__(self, scope, receive, send):
        if scope["type"] == "lifespan":
            while True:
                message = await receive()
                if message["type"] == "lifespan.startup":
                    await send({"type": "lifespan.startup.complete"})
                elif message["type"] == "lifespan.shutdown":
                    await send({"type": "lifespan.shutdown.complete"})
                    return
        if scope["type"] != "http":
            return
        body = b""
        while True:
            message = await receive()
            body += message.get("body", b"")
            if not message.get("more_body"):
                break
        headers = {}
        content_type = None
        for k, v in scope["headers"]:
            name = k.decode("latin-1").lower()
            if name == "content-type":
                content_type = v.decode("latin-1")
            else:
                headers[name] = v.decode("latin-1")
        raw_path = scope.get("raw_path")
        self.last = {
            "method": scope["method"],
            "path": scope["path"],
            "raw_uri": raw_path.decode("latin-1") if raw_path is not None else None,
            "query": scope["query_string"].decode("latin-1"),
            "headers": headers,
            "content_type": content_type,
            "body": body,
        }
        await send({"type": "http.response.start", "status": 200, "headers": [(b"content-type", b"application/json"), (b"content-length", b"2")]})
        await send({"type": "http.response.body", "body": b"{}"})


def falsy_query_probe(emit, server, session):
    """Explicit cases whose query holds an empty object next to other falsy values: every value keeps its own text."""
    import schemathesis

    doc = {
        "openapi": "3.0.2",
        "info": {"title": "t", "version": "1"},
        "paths": {
            "/q": {
                "get": {
                    "parameters": [
                        {"name": "o", "in": "query", "schema": {"type": "object"}},
                        {"name": "page", "in": "query", "schema": {"type": "integer"}},
                        {"name": "flag", "in": "query", "schema": {"type": "boolean"}},
                        {"name": "s", "in": "query", "schema": {"type": "string"}},
                    ],
                    "responses": {"200": {"description": "ok"}},
                }
            }
        },
    }
    schema = schemathesis.openapi.from_dict(doc)
    schema.base_url = server.url
    operation = schema["/q"]["GET"]
    for query in ({"o": {}, "page": 0, "flag": False, "s": ""}, {"page": 0, "flag": False}, {"o": {}, "page": 7, "flag": True, "s": "x"}):
        before = len(server.log)
        try:
            operation.Case(query=dict(query)).call(session=session)
        except Exception:
            continue
        log = server.snapshot()
        if len(log) <= before:
            continue
        emit.count("falsy_query_probes")
        got = dict(parse_qsl(log[-1]["query"], keep_blank_values=True))
        for name, want in (("page", str(query.get("page"))), ("flag", "true" if query.get("flag") else "false")):
            if name in query and got.get(name) not in (want, want.capitalize()):
                emit.viol("C06/query-value-not-recovered:falsy-next-to-empty-object", f"{name} = {query[name]!r} arrived as {got.get(name)!r} in {log[-1]['query']!r}", {"query": {k: repr(v) for k, v in query.items()}})


def run_shard(spec, emit):
    import hypothesis
    from hypothesis import HealthCheck, Phase, given, settings

    import requests
    import schemathesis
    from schemathesis.core import NOT_SET
    from schemathesis.generation import GenerationMode
    from vmon.instr.capture import RawCapture

    tier, seed, shard, nshards = spec["tier"], spec["seed"], spec["shard"], spec["nshards"]
    rng = random.Random(f"{seed}:C06:{shard}")
    capture = RawCapture()
    capture.install()
    matrix = operations_matrix()
    jobs = [m for i, m in enumerate(matrix) if i % nshards == shard]
    n_draws = 18 if tier == "quick" else 120
    deadline = time.monotonic() + (85 if tier == "quick" else 300)
    samples = 0
    session = requests.Session()
    with RecordingServer(Script()) as server:
        if shard % 4 == 0:
            falsy_query_probe(emit, server, session)
        for key, version, param, kind in jobs:
            for body_kind in (None, rng.choice(["json", "form", "text", "multipart", "jsonfalsy"])):
                if time.monotonic() > deadline:
                    emit.count("jobs_skipped_budget")
                    continue
                base_path = rng.choice(["", "/api", "/api/v1"])
                doc, template, method = make_doc(version, param, body_kind, base_path if version == "2.0" else "", trailing_slash=rng.choice([False, False, False, True, "colon"]))
                try:
                    schema = schemathesis.openapi.from_dict(doc)
                    use_wsgi = rng.random() < 0.2
                    if use_wsgi:
                        wsgi_app = WsgiCapture()
                        schema = schemathesis.openapi.from_wsgi("/openapi.json", wsgi_app) if False else schema
                    # an explicit base URL replaces the document's own server / basePath, so it carries the base path itself
                    base_url = server.url + base_path + rng.choice(["", "/"])
                    schema.base_url = base_url
                    operation = schema[template][method.upper()]
                except Exception as exc:
                    emit.viol("C06/generated-document-not-loadable", f"{type(exc).__name__}: {exc}"[:200], {"doc": doc})
                    continue
                seen = []

                @hypothesis.seed(rng.randrange(10**9))
                @settings(max_examples=n_draws, database=None, deadline=None, phases=[Phase.generate], suppress_health_check=list(HealthCheck))
                @given(case=operation.as_strategy(generation_mode=GenerationMode.POSITIVE))
                def test(case):
                    seen.append((case, capture.take()))

                capture.take()
                try:
                    test()
                except hypothesis.errors.Unsatisfiable:
                    emit.count("operations_unsatisfiable")
                    continue
                except Exception as exc:
                    emit.viol("C06/generation-crashed", f"{key}: {type(exc).__name__}: {exc}"[:200], {"doc": doc})
                    continue
                expected_base_path = base_url[len(server.url):].rstrip("/")
                for case, raw in seen:
                    before = len(server.log)
                    try:
                        if use_wsgi and version != "2.0" and False:
                            pass
                        response = case.call(session=session)
                    except Exception as exc:
                        emit.count("cases_not_sendable")
                        continue
                    log = server.snapshot()
                    if len(log) <= before:
                        emit.count("cases_not_received")
                        continue
                    record = log[-1]
                    emit.count("requests_compared")
                    context = {"operation": key, "parameter": param, "raw": {k: v[1] for k, v in raw.items()}, "wire": {"line": record["method"] + " " + record["raw_path"], "headers": record["headers"], "body": record["body"][:200]}, "base_url": base_url}
                    viols = judge(param, kind, key, template, expected_base_path, raw, case, record, body_kind, NOT_SET)
                    for loc in raw:
                        emit.count("raw:" + loc)
                    wire_sig = record["raw_path"] + "|" + record["body"][:60]
                    nontrivial = kind != "primitive" or bool(re.search(r"[^A-Za-z0-9/_=&?.-]", record["raw_path"]))
                    sample = None
                    if nontrivial and samples < 2:
                        samples += 1
                        sample = context
                    emit.case(sig=f"{key}|{wire_sig}" if nontrivial else None, sample=sample)
                    for k, what in viols:
                        emit.viol(k, what, context)
        # WSGI transport: the same oracle on `environ`
        wsgi_part(rng, emit, capture, tier)


def judge(param, kind, key, template, base_path, raw, case, record, body_kind, NOT_SET):
    viols = []
    location = param["in"]
    loc_key = {"query": "query", "path": "path", "header": "header", "cookie": "cookie"}[location]
    generated = (raw.get(loc_key) or (None, {}))[1] or {}
    name = param["name"]
    headers = {k.lower(): v for k, v in record["headers"]}
    path, _, query = record["raw_path"].partition("?")
    # URL = base path + template with the variable replaced
    prefix, _, suffix = template.partition("{v}")
    if location == "path":
        expected_prefix = base_path + prefix
        if not path.startswith(expected_prefix) or not path.endswith(suffix):
            viols.append(("C06/url-is-not-base-plus-template", f"{path!r} vs {expected_prefix!r}...{suffix!r}"))
        else:
            segment = path[len(expected_prefix): len(path) - len(suffix)]
            if re.search(r"[/?#]", segment):
                viols.append(("C06/path-value-contains-raw-reserved-character", f"segment {segment!r}"))
            elif name in generated:
                try:
                    decoded = decode_path(param, kind if kind != "intarray" else "array", segment)
                    if not coerce_equal(generated[name], decoded):
                        k = f"C06/path-value-not-recovered:{key}"
                        if param.get("style") == "matrix" and not param.get("explode") and kind in ("array", "object"):
                            k = "C06/matrix-non-exploded-value-lacks-parameter-name"
                        if isinstance(generated[name], str) and " " in generated[name] and isinstance(decoded, str) and decoded == generated[name].replace(" ", "+"):
                            k = "C06/path-space-sent-as-plus"
                        viols.append((k, f"generated {generated[name]!r}, a conforming decoder reads {decoded!r} from {segment!r}"))
                except Exception as exc:
                    k = f"C06/path-value-not-decodable:{key}"
                    if param.get("style") == "matrix" and not param.get("explode") and kind in ("array", "object") and str(exc).startswith("matrix name"):
                        k = "C06/matrix-non-exploded-value-lacks-parameter-name"
                    viols.append((k, f"{segment!r}: {exc}"))
    else:
        if path != base_path + template:
            viols.append(("C06/url-is-not-base-plus-template", f"{path!r} vs {base_path + template!r}"))
    if location == "query" and name in generated:
        try:
            decoded = decode_query(param, kind, query)
            if kind == "object" and (param.get("style") in (None, "form")) and param.get("explode") in (True, None):
                decoded = {k: v for k, v in decoded.items() if k in generated[name]} if isinstance(generated[name], dict) else decoded
            if not coerce_equal(generated[name], decoded):
                k = f"C06/query-value-not-recovered:{key}"
                if kind == "object" and param.get("style") in (None, "form") and param.get("explode") is None:
                    k = "C06/query-object-without-explode-loses-values"
                viols.append((k, f"generated {generated[name]!r}, decoded {decoded!r} from {query!r}"))
        except Exception as exc:
            viols.append((f"C06/query-value-not-decodable:{key}", f"{query!r}: {exc}"))
    if location == "header" and name in generated:
        value = headers.get(name.lower())
        if value is None:
            viols.append((f"C06/header-missing-on-the-wire:{key}", f"generated {generated[name]!r}"))
        else:
            try:
                decoded = decode_header(param, kind, value)
                if not coerce_equal(generated[name], decoded):
                    viols.append((f"C06/header-value-not-recovered:{key}", f"generated {generated[name]!r}, decoded {decoded!r} from {value!r}"))
            except Exception as exc:
                viols.append((f"C06/header-value-not-decodable:{key}", f"{value!r}: {exc}"))
    if location == "cookie" and name in generated:
        try:
            decoded = decode_cookie(param, kind, headers.get("cookie", ""))
            if not coerce_equal(generated[name], decoded):
                viols.append((f"C06/cookie-value-not-recovered:{key}", f"generated {generated[name]!r}, decoded {decoded!r} from {headers.get('cookie')!r}"))
        except Exception as exc:
            viols.append((f"C06/cookie-value-not-decodable:{key}", f"{headers.get('cookie')!r}: {exc}"))
    # body
    raw_body = raw.get("body")
    if body_kind and case.body is not NOT_SET and raw_body is not None:
        sent = record["body"].encode("latin-1")
        content_type = headers.get("content-type", "")
        if content_type.split(";")[0].strip() != (case.media_type or "").split(";")[0].strip():
            viols.append(("C06/content-type-differs-from-media-type", f"{content_type!r} vs {case.media_type!r}"))
        try:
            if body_kind == "jsonfalsy":
                got = json.loads(sent.decode("utf-8"))
                if got != raw_body[1] or type(got) is not type(raw_body[1]):
                    viols.append(("C06/json-body-does-not-round-trip", f"{sent[:60]!r} vs generated {raw_body[1]!r}"))
            elif body_kind == "json":
                if json.loads(sent.decode("utf-8")) != json.loads(json.dumps(raw_body[1])):
                    viols.append(("C06/json-body-does-not-round-trip", f"{sent[:100]!r} vs generated {raw_body[1]!r:.100}"))
            elif body_kind == "form":
                decoded = dict(parse_qsl(sent.decode("utf-8"), keep_blank_values=True))
                if isinstance(raw_body[1], dict) and not coerce_equal(raw_body[1], decoded):
                    viols.append(("C06/form-body-does-not-round-trip", f"{sent[:100]!r} vs generated {raw_body[1]!r:.100}"))
            elif body_kind == "multipart":
                decoded = decode_multipart(content_type, sent)
                if isinstance(raw_body[1], dict) and not coerce_equal(raw_body[1], decoded):
                    viols.append(("C06/multipart-body-does-not-round-trip", f"{sent[:120]!r} vs generated {raw_body[1]!r:.100}"))
            else:
                if isinstance(raw_body[1], str) and sent.decode("utf-8") != raw_body[1]:
                    viols.append(("C06/text-body-does-not-round-trip", f"{sent[:100]!r} vs generated {raw_body[1]!r:.100}"))
        except Exception as exc:
            viols.append(("C06/body-not-decodable", f"{sent[:80]!r}: {exc}"))
    # nothing else
    declared_headers = {name.lower()} if location == "header" else set()
    extra = set(headers) - ALLOWED_CLIENT_HEADERS - declared_headers
    if extra:
        viols.append(("C06/unexpected-header-on-the-wire", f"{sorted(extra)}"))
    return viols


def wsgi_part(rng, emit, capture, tier):
    import hypothesis
    from hypothesis import HealthCheck, Phase, given, settings

    import schemathesis
    from schemathesis.core import NOT_SET
    from schemathesis.generation import GenerationMode

    matrix = [m for m in operations_matrix() if m[1] == "3.0"]
    for key, version, param, kind in rng.sample(matrix, 8 if tier == "quick" else 40):
        body_kind = rng.choice(["json", "form", "multipart", "text", "jsonfalsy"])
        doc, template, method = make_doc(version, param, body_kind, "", trailing_slash=rng.choice([False, False, True, "colon"]))
        flavour = rng.choice(["wsgi", "asgi"])
        app = WsgiCapture() if flavour == "wsgi" else AsgiCapture()
        try:
            schema = schemathesis.openapi.from_dict(doc).configure(app=app, location="/openapi.json")
            operation = schema[template][method.upper()]
        except Exception as exc:
            emit.count("wsgi_setup_failed")
            emit.distinct("wsgi_setup_error", f"{type(exc).__name__}: {exc}"[:120])
            continue
        seen = []

        @hypothesis.seed(rng.randrange(10**9))
        @settings(max_examples=12, database=None, deadline=None, phases=[Phase.generate], suppress_health_check=list(HealthCheck))
        @given(case=operation.as_strategy(generation_mode=GenerationMode.POSITIVE))
        def test(case):
            seen.append((case, capture.take()))

        capture.take()
        try:
            test()
        except Exception:
            continue
        for case, raw in seen:
            try:
                case.call()
            except Exception as exc:
                emit.count("wsgi_cases_not_sendable")
                continue
            if app.last is None:
                continue
            env = app.last
            record = {
                "method": env["method"],
                "raw_path": (env["raw_uri"] or env["path"]) + ("?" + env["query"] if env["query"] and "?" not in (env["raw_uri"] or "") else ""),
                "headers": list(env["headers"].items()) + ([("content-type", env["content_type"])] if env["content_type"] else []),
                "body": env["body"].decode("latin-1"),
            }
            if env["raw_uri"] is None and param["in"] == "path":
                continue  # PATH_INFO is already decoded by the WSGI server: the raw segment is not observable
            emit.count("wsgi_requests_compared")
            emit.count(f"app_transport:{flavour}")
            context = {"operation": key, "transport": flavour, "raw": {k: v[1] for k, v in raw.items()}, "wire": record}
            viols = judge(param, kind, key, template, "", raw, case, record, body_kind, NOT_SET)
            emit.count(f"wsgi_body:{body_kind}")
            emit.case(sig=f"wsgi|{key}|{body_kind}|{record['raw_path']}")
            for k, what in viols:
                if "unexpected-header" in k:
                    continue
                emit.viol(k if k in ("C06/matrix-non-exploded-value-lacks-parameter-name", "C06/query-object-without-explode-loses-values") else k + ":" + flavour, what, context)


def replay(case):
    return []

"""Schema pools for the data-generation monitors (C01, C02, C03, C17).

Every schema is satisfiable by construction: each entry carries a witness value that conforms to it (checked by the
generators' self-test against the independent oracle before use). Schemas are written in the OpenAPI 3.0 dialect and
adapted to 2.0 / 3.1 by `adapt`.
"""

from __future__ import annotations

import copy
import random

# (schema, witness) - primitives usable in every location
PRIMITIVES = [
    ({"type": "integer"}, 3),
    ({"type": "integer", "minimum": 0, "maximum": 0}, 0),
    ({"type": "integer", "minimum": -1, "maximum": 5}, 2),
    ({"type": "integer", "minimum": 1, "exclusiveMinimum": True, "maximum": 3}, 2),
    ({"type": "integer", "multipleOf": 3, "minimum": 1, "maximum": 20}, 9),
    ({"type": "integer", "enum": [1, 2, 3]}, 2),
    ({"type": "number", "minimum": 0.5, "maximum": 1.5}, 1.0),
    ({"type": "number", "maximum": 0, "exclusiveMaximum": True}, -0.5),
    ({"type": "boolean"}, True),
    ({"type": "string"}, "abc"),
    ({"type": "string", "minLength": 2, "maxLength": 4}, "abc"),
    ({"type": "string", "enum": ["a", "bb", "c c"]}, "bb"),
    ({"type": "string", "pattern": "^[a-z]+$"}, "abc"),
    ({"type": "string", "pattern": "^[a-z]+$", "minLength": 2, "maxLength": 5}, "abc"),
    ({"type": "string", "pattern": "^[0-9]{2,4}$"}, "123"),
    ({"type": "string", "pattern": "ab", "maxLength": 3}, "xab"),
    ({"type": "string", "pattern": "ab", "minLength": 4}, "abcd"),
    ({"type": "string", "pattern": "^ab", "maxLength": 4}, "abc"),
    ({"type": "string", "pattern": "[xyz]$", "minLength": 2, "maxLength": 6}, "aax"),
    ({"type": "string", "pattern": "^(ab)+$", "maxLength": 4}, "abab"),
    ({"type": "string", "pattern": "^(ab)+$", "minLength": 3, "maxLength": 6}, "abab"),
    ({"type": "string", "pattern": "^a+b+$", "minLength": 3, "maxLength": 5}, "aab"),
    ({"type": "string", "pattern": "^\\d{3}-\\d{2}$"}, "123-45"),
    ({"type": "string", "pattern": "^(foo|ba[rz])$"}, "bar"),
    ({"type": "string", "pattern": "^[A-Z][a-z]*$", "maxLength": 3}, "Ab"),
    ({"type": "string", "pattern": "^x?$", "minLength": 1}, "x"),
    ({"type": "string", "format": "date"}, "2020-02-29"),
    ({"type": "string", "format": "date-time"}, "2020-02-29T10:00:00Z"),
    ({"type": "string", "format": "uuid"}, "123e4567-e89b-12d3-a456-426614174000"),
    ({"type": "string", "format": "ipv4"}, "10.0.0.1"),
    ({"type": "string", "format": "byte"}, "aGk="),
    ({"type": "integer", "nullable": True, "minimum": 5}, None),
    ({"type": "string", "nullable": True, "minLength": 3}, "abcd"),
]

# one anchored atom without a quantifier next to length keywords (only for the checks that ask for them)
UNQUANTIFIED_ATOMS = [
    ({"type": "string", "pattern": "^[a-z]$", "maxLength": 5}, "q"),
    ({"type": "string", "pattern": "^\\d$", "minLength": 1, "maxLength": 4}, "7"),
    ({"type": "string", "pattern": "^k$", "maxLength": 3}, "k"),
]

ARRAYS = [
    ({"type": "array", "items": {"type": "integer"}}, [1, 2]),
    ({"type": "array", "items": {"type": "integer", "minimum": 1}, "minItems": 1, "maxItems": 3}, [1]),
    ({"type": "array", "items": {"type": "string", "enum": ["a", "b", "c"]}, "uniqueItems": True, "minItems": 2}, ["a", "b"]),
    ({"type": "array", "items": {"type": "string", "pattern": "^[a-z]{2}$"}, "maxItems": 2}, ["ab"]),
]

OBJECTS = [
    ({"type": "object", "properties": {"a": {"type": "integer"}}, "required": ["a"]}, {"a": 1}),
    ({"type": "object", "properties": {"a": {"type": "integer"}, "b": {"type": "string", "minLength": 1}}, "required": ["b"], "additionalProperties": False}, {"b": "x"}),
    ({"type": "object", "additionalProperties": {"type": "integer"}}, {"k": 1}),
    ({"type": "object", "properties": {"id": {"type": "integer", "readOnly": True}, "name": {"type": "string"}}, "required": ["id", "name"]}, {"name": "n"}),
    (
        {"type": "object", "properties": {"id": {"type": "integer", "readOnly": True}, "ts": {"type": "string", "readOnly": True}, "name": {"type": "string"}}, "required": ["name"], "additionalProperties": False},
        {"name": "n"},
    ),
    ({"type": "object", "properties": {"n": {"type": "object", "properties": {"d": {"type": "array", "items": {"type": "boolean"}}}, "required": ["d"]}}, "required": ["n"]}, {"n": {"d": [True]}}),
    ({"allOf": [{"type": "object", "properties": {"a": {"type": "integer"}}, "required": ["a"]}, {"type": "object", "properties": {"b": {"type": "string"}}, "required": ["b"]}]}, {"a": 1, "b": "x"}),
    ({"anyOf": [{"type": "integer", "minimum": 10}, {"type": "string", "maxLength": 2}]}, "ab"),
    ({"oneOf": [{"type": "integer", "multipleOf": 2}, {"type": "string", "minLength": 1}]}, 4),
    ({"$ref": "#/components/schemas/Pet"}, {"name": "rex", "tag": {"label": "dog"}}),
    ({"type": "object", "nullable": True, "properties": {"x": {"type": "integer"}}, "required": ["x"]}, None),
    ({}, 1),
    ({"type": "object"}, {}),
]

COMPONENT_SCHEMAS = {
    "Pet": {"type": "object", "required": ["name"], "properties": {"name": {"type": "string", "minLength": 1, "maxLength": 10}, "tag": {"$ref": "#/components/schemas/Tag"}}, "additionalProperties": False},
    "Tag": {"type": "object", "required": ["label"], "properties": {"label": {"type": "string", "enum": ["dog", "cat"]}}},
}


def adapt(schema, version):
    """Rewrite a 3.0-dialect schema for OpenAPI 2.0 / 3.1."""
    schema = copy.deepcopy(schema)
    if version == "3.0":
        return schema

    def walk(node):
        if isinstance(node, dict):
            if version == "2.0":
                if "nullable" in node:
                    node["x-nullable"] = node.pop("nullable")
                if isinstance(node.get("$ref"), str):
                    node["$ref"] = node["$ref"].replace("#/components/schemas/", "#/definitions/")
            else:
                if node.pop("nullable", False) and "type" in node:
                    node["type"] = [node["type"], "null"]
                if node.get("exclusiveMinimum") is True:
                    node["exclusiveMinimum"] = node.pop("minimum")
                elif node.get("exclusiveMinimum") is False:
                    node.pop("exclusiveMinimum")
                if node.get("exclusiveMaximum") is True:
                    node["exclusiveMaximum"] = node.pop("maximum")
                elif node.get("exclusiveMaximum") is False:
                    node.pop("exclusiveMaximum")
            for value in list(node.values()):
                walk(value)
        elif isinstance(node, list):
            for value in node:
                walk(value)

    walk(schema)
    return schema


def compose(rng: random.Random, depth: int = 0):
    """A random composition of pool schemas that stays satisfiable by construction: objects (required subsets, closed or
    open), arrays (small size bounds, no uniqueItems), anyOf / oneOf over schemas of different types, nullable wrappers,
    one level of nesting."""
    pick = lambda: copy.deepcopy(rng.choice(PRIMITIVES)[0])
    kind = rng.choice(["object", "object", "array", "anyOf", "oneOf", "nullable", "nested"] if depth == 0 else ["object", "array", "nullable"])
    if kind == "object":
        names = rng.sample(["a", "b", "c", "d-e", "f g", "on"], rng.randint(1, 4))
        schema = {"type": "object", "properties": {n: pick() for n in names}}
        required = [n for n in names if rng.random() < 0.6]
        if required:
            schema["required"] = required
        if rng.random() < 0.4:
            schema["additionalProperties"] = False
        return schema
    if kind == "array":
        schema = {"type": "array", "items": pick()}
        lo = rng.choice([None, 0, 1, 2])
        hi = rng.choice([None, 2, 3, 5])
        if lo is not None:
            schema["minItems"] = lo
        if hi is not None:
            schema["maxItems"] = hi
        return schema
    if kind in ("anyOf", "oneOf"):
        # different JSON types, so that exactly one branch matches any value (oneOf stays satisfiable)
        by_type = {}
        for candidate, _ in PRIMITIVES:
            if not candidate.get("nullable"):
                by_type.setdefault(candidate["type"], []).append(candidate)
        by_type.pop("number", None)  # integers are numbers too
        types = rng.sample(sorted(by_type), 2)
        return {kind: [copy.deepcopy(rng.choice(by_type[t])) for t in types]}
    if kind == "nullable":
        schema = pick()
        schema["nullable"] = True
        return schema
    inner = compose(rng, depth + 1)
    return {"type": "object", "properties": {"inner": inner, "list": {"type": "array", "items": compose(rng, depth + 1), "maxItems": 2}}, "required": ["inner"]}


def _place_security(rng, doc, op, requirements):
    """Requirements on the operation, inherited from the document, or declared for the document and switched off
    for the operation with an empty list."""
    where = rng.choice(["operation", "operation", "document", "document-switched-off"])
    if where == "operation":
        op["security"] = requirements
    else:
        doc["security"] = requirements
        if where == "document-switched-off":
            op["security"] = []


def effective_security(doc):
    """Security requirements that apply to the single operation of a generated document."""
    for path_item in doc.get("paths", {}).values():
        for method, op in path_item.items():
            if method in ("get", "put", "post", "delete", "options", "head", "patch", "trace") and isinstance(op, dict):
                return op.get("security", doc.get("security", []))
    return []


def make_operation_document(rng: random.Random, version: str, *, with_security=False, negative_friendly=False, composite=False, unquantified_atoms=False):
    """One operation `POST /op/{p}` (or GET without body) whose inputs are drawn from the pools.

    -> (doc, description) where description lists, per location, the declared parameters:
       {"path": {name: (schema30, required)}, "query": ..., "header": ..., "cookie": ..., "body": [(media, schema30, required)]}
    """
    three = version != "2.0"
    desc = {"path": {}, "query": {}, "header": {}, "cookie": {}, "body": []}
    params = []

    def add(location, name, schema, required, style=None):
        desc[location][name] = (schema, required)
        p = {"name": name, "in": location, "required": True if location == "path" else required}
        adapted = adapt(schema, version)
        if three:
            p["schema"] = adapted
            if style:
                p.update(style)
        else:
            p.update(adapted)
            if adapted.get("type") == "array":
                p["collectionFormat"] = rng.choice(["csv", "multi"]) if location == "query" else "csv"
        params.append(p)

    # path parameters: primitives that survive a URL path (the string ones are judged too)
    if negative_friendly:
        path_pool = [s for s in PRIMITIVES if s[0].get("type") in ("integer", "number", "boolean")]
    else:
        path_pool = [s for s in PRIMITIVES if not s[0].get("nullable")] + (UNQUANTIFIED_ATOMS if unquantified_atoms else [])
    schema, _ = rng.choice(path_pool)
    add("path", "p", schema, True)
    locations = [("query", ["q1", "q2", "q3"]), ("header", ["X-H1", "X-H2"])]
    if three:
        locations.append(("cookie", ["c1"]))  # Swagger 2.0 has no cookie parameters
    for location, names in locations:
        for name in names[: rng.randint(0, len(names))]:
            if location == "query" and rng.random() < 0.3:
                schema, _ = rng.choice(ARRAYS)
            else:
                schema, _ = rng.choice([s for s in PRIMITIVES if three or not s[0].get("nullable") or location != "header"] + (UNQUANTIFIED_ATOMS if unquantified_atoms else []))
            if version == "2.0" and "$ref" in str(schema):
                continue
            add(location, name, schema, rng.random() < 0.6)
    if three and rng.random() < 0.35:
        # parameter described with `content` instead of `schema`
        schema, _ = rng.choice(OBJECTS[:3] + ARRAYS[:2] + PRIMITIVES[:6])
        location = rng.choice(["query", "header"])
        name = "qc" if location == "query" else "X-C"
        desc[location][name] = (schema, True)
        params.append({"name": name, "in": location, "required": True, "content": {"application/json": {"schema": adapt(schema, version)}}})
    if three and rng.random() < 0.25:
        # a header / cookie described only by combinators over non-string types (no `type` of its own)
        location = rng.choice(["header", "cookie"])
        schema = rng.choice([
            {"allOf": [{"type": "integer"}, {"minimum": 1, "maximum": 100}]},
            {"allOf": [{"type": "number"}, {"enum": [1.5, 2.5]}]},
            {"anyOf": [{"type": "integer", "minimum": 5}, {"type": "boolean"}]},
        ])
        name = "X-AO" if location == "header" else "cao"
        desc[location][name] = (schema, True)
        params.append({"name": name, "in": location, "required": True, "schema": copy.deepcopy(schema)})
    method = "get"
    op = {"responses": {"200": {"description": "ok"}}}
    if rng.random() < 0.7:
        method = "post"
        schema, _ = rng.choice(OBJECTS + PRIMITIVES[:6] + ARRAYS[:2])
        if composite and rng.random() < 0.6:
            schema = compose(rng)
        required = rng.random() < 0.7
        if three:
            media = rng.choice([["application/json"], ["application/json", "application/x-www-form-urlencoded"]]) if schema.get("type") == "object" and "additionalProperties" not in schema else ["application/json"]
            op["requestBody"] = {"required": required, "content": {m: {"schema": adapt(schema, version)} for m in media}}
            for m in media:
                desc["body"].append((m, schema, required))
        else:
            params.append({"name": "payload", "in": "body", "required": required, "schema": adapt(schema, version)})
            op["consumes"] = ["application/json"]
            desc["body"].append(("application/json", schema, required))
    shared = []
    if rng.random() < 0.3:
        # some parameters are declared once for the whole path item; an operation-level parameter of the same name in
        # ANOTHER location does not override them
        movable = [p for p in params if p["in"] in ("query", "header") and "content" not in p]
        for p in rng.sample(movable, min(len(movable), rng.randint(1, 2))):
            params.remove(p)
            shared.append(p)
            other = "header" if p["in"] == "query" else "query"
            if rng.random() < 0.5 and p["name"] not in desc[other]:
                twin_schema = {"type": "integer", "minimum": 0, "maximum": 9}
                desc[other][p["name"]] = (twin_schema, True)
                twin = {"name": p["name"], "in": other, "required": True}
                if three:
                    twin["schema"] = twin_schema
                else:
                    twin.update(twin_schema)
                params.append(twin)
    op["parameters"] = params
    path_item = {method: op}
    if shared:
        path_item = {"parameters": shared, method: op}
    if three:
        doc = {"openapi": "3.0.2" if version == "3.0" else "3.1.0", "info": {"title": "t", "version": "1"}, "paths": {"/op/{p}": path_item}, "components": {"schemas": {k: adapt(v, version) for k, v in COMPONENT_SCHEMAS.items()}}}
        if with_security:
            doc["components"]["securitySchemes"] = {"K": {"type": "apiKey", "in": "header", "name": "X-API-Key"}, "B": {"type": "http", "scheme": "bearer"}}
            _place_security(rng, doc, op, [{"K": []}, {"B": []}])
    else:
        doc = {"swagger": "2.0", "info": {"title": "t", "version": "1"}, "paths": {"/op/{p}": path_item}, "definitions": {k: adapt(v, version) for k, v in COMPONENT_SCHEMAS.items()}}
        if with_security:
            doc["securityDefinitions"] = {"K": {"type": "apiKey", "in": "header", "name": "X-API-Key"}}
            _place_security(rng, doc, op, [{"K": []}])
    return doc, desc, method

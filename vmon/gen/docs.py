"""Small OpenAPI documents used by the engine-level monitors (kept tiny so that one run costs ~1 s)."""

from __future__ import annotations

import copy


def base(paths, version="3.0.2", components=None):
    doc = {"openapi": version, "info": {"title": "verif", "version": "1"}, "paths": paths}
    if components:
        doc["components"] = components
    return doc


def int_param(name, where, required=True, **schema):
    return {"name": name, "in": where, "required": required, "schema": {"type": "integer", **schema}}


OK = {"200": {"description": "ok", "content": {"application/json": {"schema": {"type": "object"}}}}}


def doc_one():
    return base({"/items": {"get": {"operationId": "listItems", "parameters": [int_param("q", "query")], "responses": copy.deepcopy(OK)}}})


def doc_two_linked():
    return base(
        {
            "/users": {
                "post": {
                    "operationId": "createUser",
                    "requestBody": {
                        "required": True,
                        "content": {"application/json": {"schema": {"type": "object", "properties": {"n": {"type": "integer"}}, "required": ["n"], "additionalProperties": False}}},
                    },
                    "responses": {
                        "201": {
                            "description": "created",
                            "content": {"application/json": {"schema": {"type": "object"}}},
                            "links": {"get": {"operationId": "getUser", "parameters": {"id": "$response.body#/id"}}},
                        }
                    },
                }
            },
            "/users/{id}": {"get": {"operationId": "getUser", "parameters": [int_param("id", "path")], "responses": copy.deepcopy(OK)}},
        }
    )


def doc_four():
    return base(
        {
            "/a": {"get": {"operationId": "getA", "tags": ["t1"], "parameters": [int_param("x", "query")], "responses": copy.deepcopy(OK)}},
            "/b": {
                "post": {
                    "operationId": "postB",
                    "tags": ["t2"],
                    "requestBody": {"required": True, "content": {"application/json": {"schema": {"type": "object", "properties": {"v": {"type": "boolean"}}, "required": ["v"]}}}},
                    "responses": copy.deepcopy(OK),
                }
            },
            "/c/{id}": {
                "get": {"operationId": "getC", "parameters": [int_param("id", "path")], "responses": copy.deepcopy(OK)},
                "delete": {"operationId": "deleteC", "parameters": [int_param("id", "path")], "responses": copy.deepcopy(OK)},
            },
        }
    )


def doc_invalid_op():
    doc = doc_four()
    doc["paths"]["/bad"] = {"get": {"parameters": [{"$ref": "#/components/parameters/Missing"}], "responses": copy.deepcopy(OK)}}
    return doc


def doc_broken_item():
    """A path item behind a reference that cannot be resolved: an error that belongs to no single operation."""
    doc = doc_four()
    doc["paths"]["/broken"] = {"$ref": "#/components/x-path-items/DoesNotExist"}
    return doc


def doc_secured():
    """One operation behind an apiKey header scheme and one open operation (for the checks that derive requests)."""
    doc = base(
        {
            "/secure": {"get": {"operationId": "getSecure", "security": [{"Key": []}], "parameters": [int_param("x", "query")], "responses": copy.deepcopy(OK)}},
            "/open": {"get": {"operationId": "getOpen", "parameters": [int_param("y", "query")], "responses": copy.deepcopy(OK)}},
        },
        components={"securitySchemes": {"Key": {"type": "apiKey", "in": "header", "name": "X-API-Key"}}},
    )
    return doc


def doc_empty():
    return base({})


def doc_eight():
    paths = {}
    for i in range(8):
        paths[f"/r{i}"] = {"get": {"operationId": f"getR{i}", "parameters": [int_param("x", "query")], "responses": copy.deepcopy(OK)}}
    return base(paths)


DOCS = {
    "one": doc_one,
    "two_linked": doc_two_linked,
    "four": doc_four,
    "invalid_op": doc_invalid_op,
    "broken_item": doc_broken_item,
    "secured": doc_secured,
    "empty": doc_empty,
    "eight": doc_eight,
}

LINK_RULES = [{"when": {"method": "POST", "path_regex": "^/users$"}, "then": {"status": 201, "json": {"id": 7}}}]

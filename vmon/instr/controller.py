"""Schedule / fault controller behind `schemathesis.core.verif.point`.

A plan maps point names to lists of {"hit": k (1-based, per point; omitted = every hit), "action": "delay"|"yield"|
"raise"|"mark"|"call", "arg": ...}. Random perturbation (`jitter`) adds seeded delays at every hit of the listed points.
The controller appends (seq, thread role, point) to its history; the interleaving signature of a run is that
sequence with consecutive duplicates collapsed. Delays steer exploration only; no verdict depends on a duration.
"""

from __future__ import annotations

import random
import threading
import time

from vmon.api.server import next_seq


class VerifFault(RuntimeError):
    """Injected internal fault."""


def thread_role(name: str) -> str:
    if name.startswith("schemathesis_unit_tests_"):
        return "worker" + name.rsplit("_", 1)[1]
    if name.startswith("schemathesis_stateful"):
        return "stateful"
    if name == "MainThread":
        return "main"
    return "other"


class Controller:
    def __init__(self, plan=None, jitter=None, seed=0, callbacks=None):
        self.plan = plan or {}
        self.jitter = jitter  # {"points": [...]|None, "p": 0.2, "delays": [0, 0.001, 0.02]}
        self.rng = random.Random(f"ctl:{seed}")
        self.lock = threading.Lock()
        self.hits: dict[str, int] = {}
        self.history: list[tuple[int, str, str]] = []
        self.fired: list[dict] = []
        self.marks: dict[str, int] = {}
        self.callbacks = callbacks or {}

    def install(self):
        from schemathesis.core import verif

        if not verif.ENABLED:
            raise RuntimeError("SCHEMATHESIS_VERIF=1 must be set before schemathesis is imported")
        verif.set_handler(self)

    def uninstall(self):
        from schemathesis.core import verif

        verif.set_handler(None)

    def __call__(self, name, **ctx):
        role = thread_role(threading.current_thread().name)
        with self.lock:
            n = self.hits.get(name, 0) + 1
            self.hits[name] = n
            seq = next_seq()
            self.history.append((seq, role, name))
            actions = [a for a in self.plan.get(name, ()) if a.get("hit") in (None, n) and a.get("role") in (None, role)]
            jitter_delay = None
            if self.jitter and (self.jitter.get("points") is None or name in self.jitter["points"]):
                if self.rng.random() < self.jitter.get("p", 0.2):
                    jitter_delay = self.rng.choice(self.jitter.get("delays", [0, 0.001, 0.02]))
        callback = self.callbacks.get(name)
        if callback is not None:
            callback(name, n, role, ctx)
        if jitter_delay is not None:
            time.sleep(jitter_delay)
        for action in actions:
            kind = action["action"]
            with self.lock:
                self.fired.append({"point": name, "hit": n, "role": role, "action": kind, "seq": seq})
            if kind == "delay":
                time.sleep(action.get("arg", 0.05))
            elif kind == "yield":
                time.sleep(0)
            elif kind == "mark":
                with self.lock:
                    self.marks.setdefault(action.get("arg", name), seq)
            elif kind == "raise":
                raise VerifFault(action.get("arg", f"fault@{name}#{n}"))
            elif kind == "interrupt":
                raise KeyboardInterrupt

    def signature(self) -> str:
        out = []
        for _, role, name in self.history:
            item = f"{role}:{name}"
            if not out or out[-1] != item:
                out.append(item)
        return ">".join(out)

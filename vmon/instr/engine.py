"""Engine-run harness: runs the real engine (through the real CLI entry point, or through `from_schema(...).execute()`)
against the recording loopback API, in this process, and returns everything that was observed.
"""

from __future__ import annotations

import contextlib
import copy
import io
import json
import os
import sys
import threading
import time

from vmon.api.server import RecordingServer, Script, next_seq
from vmon.instr.controller import Controller

SCHEMA_PATH = "/__schema__/openapi.json"


# ---------------------------------------------------------------------------------------------- serialisation
def _case_summary(node):
    case = node.value
    meta = case.meta
    out = {
        "id": case.id,
        "parent_id": node.parent_id,
        "has_transition": node.transition is not None,
        "transition_id": getattr(node.transition, "id", None),
        "operation": case.operation.label,
        "method": case.method,
        "path": case.path,
    }
    if meta is not None:
        out["mode"] = meta.generation.mode.value
        out["phase"] = meta.phase.name.value
        data = meta.phase.data
        if hasattr(data, "description"):
            out["description"] = data.description
            out["parameter"] = data.parameter
            out["parameter_location"] = data.parameter_location
    return out


def recorder_summary(recorder):
    cases = {cid: _case_summary(node) for cid, node in recorder.cases.items()}
    checks = {}
    for cid, nodes in recorder.checks.items():
        checks[cid] = [
            {
                "name": n.name,
                "status": n.status.name,
                "failure": None
                if n.failure_info is None
                else {
                    "type": type(n.failure_info.failure).__name__,
                    "title": getattr(n.failure_info.failure, "title", None),
                    "operation": getattr(n.failure_info.failure, "operation", None),
                    "status_code": getattr(n.failure_info.failure, "status_code", None),
                    "code_sample": n.failure_info.code_sample,
                },
            }
            for n in nodes
        ]
    interactions = {}
    for cid, inter in recorder.interactions.items():
        req = inter.request
        interactions[cid] = {
            "method": req.method,
            "uri": req.uri,
            "body": None if req.body is None else req.body.decode("latin-1"),
            "headers": req.headers,
            "status": None if inter.response is None else inter.response.status_code,
        }
    return {"label": recorder.label, "cases": cases, "checks": checks, "interactions": interactions}


def serialise_event(event, seq=None):
    from schemathesis.engine import events

    out = {"type": type(event).__name__, "id": str(event.id), "seq": seq}
    if isinstance(event, (events.PhaseStarted, events.PhaseFinished)):
        out["phase"] = event.phase.name.name
        out["phase_enabled"] = event.phase.is_enabled
        out["skip_reason"] = None if event.phase.skip_reason is None else event.phase.skip_reason.value
        if isinstance(event, events.PhaseFinished):
            out["status"] = event.status.name
    elif isinstance(event, (events.SuiteStarted, events.SuiteFinished)):
        out["phase"] = event.phase.name
        if isinstance(event, events.SuiteFinished):
            out["status"] = event.status.name
    elif isinstance(event, events.ScenarioStarted):
        out.update(phase=event.phase.name, suite_id=str(event.suite_id), label=event.label)
    elif isinstance(event, events.ScenarioFinished):
        out.update(
            phase=event.phase.name,
            suite_id=str(event.suite_id),
            label=event.label,
            status=event.status.name,
            skip_reason=event.skip_reason,
            is_final=event.is_final,
            recorder=recorder_summary(event.recorder),
        )
    elif isinstance(event, events.NonFatalError):
        out.update(
            phase=event.phase.name,
            label=event.label,
            error_type=type(event.value).__name__,
            message=str(event.value)[:500],
            related_to_operation=event.related_to_operation,
        )
    elif isinstance(event, events.FatalError):
        out.update(error_type=type(event.exception).__name__, message=str(event.exception)[:500])
    elif isinstance(event, events.Interrupted):
        out["phase"] = None if event.phase is None else event.phase.name
    return out


class RunResult:
    def __init__(self):
        self.events: list[dict] = []
        self.server_log: list[dict] = []
        self.exit_code: int | None = None
        self.stdout = ""
        self.stderr = ""
        self.history: list = []
        self.fired: list = []
        self.marks: dict = {}
        self.signature = ""
        self.hung = False
        self.harness_error: str | None = None
        self.stop_seq: int | None = None
        self.base_url = ""
        self.files: dict[str, bytes] = {}
        self.wall = 0.0
        self.reported_failures = None

    def api_requests(self):
        return [r for r in self.server_log if not r["path"].startswith("/__schema__")]

    def test_requests(self):
        """Requests sent as tests (no schema fetches, no capability probes)."""
        return [
            r
            for r in self.api_requests()
            if not any(k.lower() == "x-schemathesis-probe" for k, _ in r["headers"])
        ]


def make_script(doc, rules=None, default=None, schema_format="json"):
    if schema_format == "yaml":
        import yaml

        body = yaml.safe_dump(doc, sort_keys=False)
        content_type = "application/yaml"
    else:
        body = json.dumps(doc)
        content_type = "application/json"
    schema_rule = {
        "when": {"path_regex": "^" + SCHEMA_PATH.replace(".", r"\.") + "$"},
        "then": {"status": 200, "body": body, "content_type": content_type},
    }
    return Script([schema_rule] + list(rules or []), default)


# Set by the last run of this process: True when the watchdog ended a run that was still making progress (requests kept
# arriving at the API) - slow, not stuck. The emitter files such a run as "slow, not judged" instead of inconclusive.
LAST = {"slow": False}


@contextlib.contextmanager
def _watchdog(seconds, on_fire, progress=None, extensions=2):
    """Fires `on_fire` after `seconds` without completion. With a `progress` callable (a monotone counter) the
    deadline is extended up to `extensions` times while the counter keeps moving; a run that is ended although it was
    still moving is marked slow, one that stood still is a suspected hang."""
    done = threading.Event()
    LAST["slow"] = False

    def watch():
        last = progress() if progress else None
        for attempt in range(extensions + 1):
            if done.wait(seconds):
                return
            now = progress() if progress else None
            moved = progress is not None and now != last
            last = now
            if not moved:
                on_fire()
                return
        LAST["slow"] = True
        on_fire()

    thread = threading.Thread(target=watch, daemon=True)
    thread.start()
    try:
        yield
    finally:
        done.set()


def _reset_global_state():
    import schemathesis
    from schemathesis import auths, hooks
    from schemathesis.cli.commands.run import executor

    executor.CUSTOM_HANDLERS.clear()
    hooks.unregister_all()
    auths.GLOBAL_AUTH_STORAGE.unregister()


# ---------------------------------------------------------------------------------------------- CLI mode
def run_cli(
    doc,
    args,
    *,
    rules=None,
    default=None,
    plan=None,
    jitter=None,
    seed=0,
    dynamic=None,
    timeout=120.0,
    base_path="",
    pre_run=None,
    report_dir=None,
    schema_format="json",
    callbacks=None,
    url_userinfo=None,
    schema_userinfo=None,
    url_option_form="separate",
):
    """Run `st run <schema-url> --url <base> <args...>` in-process. Returns RunResult.
    `schema_userinfo` puts credentials into the schema location as well; `url_option_form` = "equals" spells `--url=<base>`."""
    from schemathesis import cli as st_cli
    from schemathesis.cli.commands.run import executor
    from schemathesis.cli.commands.run.handlers.base import EventHandler

    result = RunResult()
    _reset_global_state()
    controller = Controller(plan=plan, jitter=jitter, seed=seed, callbacks=callbacks)
    captured = result.events
    streams = {}

    class Capture(EventHandler):
        def handle_event(self, ctx, event):
            captured.append(serialise_event(event, next_seq()))

    executor.CUSTOM_HANDLERS.append(Capture)
    if pre_run is not None:
        pre_run()
    script = make_script(doc, rules, default, schema_format)
    started = time.monotonic()
    with RecordingServer(script, dynamic=dynamic) as server:
        result.base_url = server.url + base_path
        cli_base_url = result.base_url if not url_userinfo else result.base_url.replace("http://", f"http://{url_userinfo}@")
        schema_url = server.url + SCHEMA_PATH
        if schema_userinfo:
            schema_url = schema_url.replace("http://", f"http://{schema_userinfo}@")
        url_args = [f"--url={cli_base_url}"] if url_option_form == "equals" else ["--url", cli_base_url]
        argv = ["run", schema_url] + url_args + ["--no-color"] + list(args)
        out, err = io.StringIO(), io.StringIO()

        def fire():
            result.hung = True
            import faulthandler

            faulthandler.dump_traceback(file=sys.__stderr__)

        controller.install()
        saved_argv = sys.argv
        # the product inspects sys.argv to describe how it was started (cassette `command:` field)
        sys.argv = ["st"] + argv
        try:
            with _watchdog(timeout, fire, progress=lambda: len(server.log)), contextlib.redirect_stdout(out), contextlib.redirect_stderr(err):
                try:
                    st_cli.schemathesis.main(args=argv, prog_name="st", standalone_mode=True)
                    result.exit_code = 0
                except SystemExit as exc:
                    code = exc.code
                    result.exit_code = code if isinstance(code, int) else (0 if code is None else 1)
                except BaseException as exc:  # the CLI let an exception escape
                    result.exit_code = -1
                    result.harness_error = f"{type(exc).__name__}: {exc}"
        finally:
            sys.argv = saved_argv
            controller.uninstall()
            executor.CUSTOM_HANDLERS.clear()
        result.stdout, result.stderr = out.getvalue(), err.getvalue()
        result.server_log = server.snapshot()
    if report_dir and os.path.isdir(report_dir):
        for name in os.listdir(report_dir):
            with open(os.path.join(report_dir, name), "rb") as fd:
                result.files[name] = fd.read()
    result.history, result.fired, result.marks = controller.history, controller.fired, controller.marks
    result.signature = controller.signature()
    result.wall = time.monotonic() - started
    return result


# ---------------------------------------------------------------------------------------------- API mode
def build_engine_config(cfg: dict):
    """cfg keys: phases, checks, workers, max_failures, continue_on_failure, unique_inputs, seed, max_examples,
    modes, headers, auth, override, stateful_step_count, checks_config, derandomize."""
    import hypothesis

    import schemathesis.specs.openapi.checks  # noqa: F401  (registers checks)
    from schemathesis.checks import CHECKS
    from schemathesis.cli.commands.run.hypothesis import prepare_phases, prepare_settings
    from schemathesis.engine.config import EngineConfig, ExecutionConfig, NetworkConfig
    from schemathesis.engine.phases import PhaseName
    from schemathesis.generation import GenerationConfig, GenerationMode
    from schemathesis.generation.overrides import Override

    settings = prepare_settings(
        database="none",
        derandomize=cfg.get("derandomize"),
        max_examples=cfg.get("max_examples"),
        # `hypothesis_phases_default`: leave Hypothesis' own phases untouched, as a Python API user who only sets a few
        # options does (the command line always passes an explicit list)
        phases=None if cfg.get("hypothesis_phases_default") else prepare_phases(cfg.get("no_shrink", False)),
        suppress_health_check=list(hypothesis.HealthCheck),
    )
    if cfg.get("stateful_step_count") is not None:
        settings = hypothesis.settings(settings, stateful_step_count=cfg["stateful_step_count"])
    phases = [PhaseName.PROBING] + [PhaseName.from_str(p) for p in cfg.get("phases", ["examples", "coverage", "fuzzing", "stateful"])]
    check_names = cfg.get("checks", ["not_a_server_error"])
    checks = CHECKS.get_by_names(check_names) if check_names != "all" else CHECKS.get_all()
    override = None
    if cfg.get("override"):
        o = cfg["override"]
        override = Override(
            query=o.get("query", {}), headers=o.get("headers", {}), cookies=o.get("cookies", {}), path_parameters=o.get("path_parameters", {})
        )
    return EngineConfig(
        execution=ExecutionConfig(
            phases=phases,
            checks=list(checks),
            hypothesis_settings=settings,
            generation=GenerationConfig(
                modes=[GenerationMode(m) for m in cfg.get("modes", ["positive"])],
                allow_x00=cfg.get("allow_x00", True),
                codec=cfg.get("codec", "utf-8"),
                with_security_parameters=cfg.get("with_security_parameters", True),
            ),
            max_failures=cfg.get("max_failures"),
            continue_on_failure=cfg.get("continue_on_failure", False),
            unique_inputs=cfg.get("unique_inputs", False),
            seed=cfg.get("seed", 0),
            workers_num=cfg.get("workers", 1),
        ),
        network=NetworkConfig(auth=tuple(cfg["auth"]) if cfg.get("auth") else None, headers=dict(cfg.get("headers") or {})),
        override=override,
        checks_config=cfg.get("checks_config", {}),
    )


def run_api(
    doc,
    cfg,
    *,
    rules=None,
    default=None,
    plan=None,
    jitter=None,
    seed=0,
    dynamic=None,
    timeout=120.0,
    stop_after=None,
    interrupt_after=None,
    pre_run=None,
    on_event=None,
    filter_setup=None,
    keep_raw=False,
    callbacks=None,
    schema_loader=None,
    stop_on_request=None,
):
    """Iterate `from_schema(schema, config).execute()` in this thread.

    stop_after=k: call stream.stop() right after the k-th event (0-based) was received.
    stop_on_request=n: call stream.stop() from the API's side while it serves the n-th test request (a stop that
    arrives in the middle of a scenario, not at an event boundary).
    interrupt_after=k: throw KeyboardInterrupt into the generator after the k-th event.
    """
    import schemathesis
    from schemathesis.cli.commands.run.context import ExecutionContext
    from schemathesis.engine import from_schema

    result = RunResult()
    _reset_global_state()
    controller = Controller(plan=plan, jitter=jitter, seed=seed, callbacks=callbacks)
    if pre_run is not None:
        pre_run()
    script = make_script(doc, rules, default)
    started = time.monotonic()
    raw = []
    shared = {"stream": None, "served": 0}
    if stop_on_request is not None:
        inner_dynamic = dynamic

        def dynamic(record, then):  # noqa: F811
            if not any(k.lower() == "x-schemathesis-probe" for k, _ in record["headers"]) and record["path"] != SCHEMA_PATH:
                shared["served"] += 1
                if shared["served"] == stop_on_request and shared["stream"] is not None and result.stop_seq is None:
                    result.stop_seq = next_seq()
                    shared["stream"].stop()
            return inner_dynamic(record, then) if inner_dynamic is not None else None

    with RecordingServer(script, dynamic=dynamic) as server:
        result.base_url = server.url
        if schema_loader is not None:
            schema = schema_loader(copy.deepcopy(doc))
        else:
            schema = schemathesis.openapi.from_dict(copy.deepcopy(doc))
        schema.base_url = server.url
        if filter_setup is not None:
            schema = filter_setup(schema) or schema
        config = build_engine_config(cfg)
        ctx = ExecutionContext(seed=cfg.get("seed", 0))
        stream = from_schema(schema, config=config).execute()
        state = {"stream": stream}
        shared["stream"] = stream

        def fire():
            result.hung = True
            import faulthandler

            faulthandler.dump_traceback(file=sys.__stderr__)
            stream.stop()

        controller.install()
        try:
            with _watchdog(timeout, fire, progress=lambda: len(server.log)):
                generator = iter(stream)
                idx = 0
                pending_throw = False
                while True:
                    try:
                        if pending_throw:
                            pending_throw = False
                            event = generator.throw(KeyboardInterrupt)
                        else:
                            event = next(generator)
                    except StopIteration:
                        break
                    except BaseException as exc:
                        result.harness_error = f"stream raised {type(exc).__name__}: {exc}"
                        break
                    seq = next_seq()
                    result.events.append(serialise_event(event, seq))
                    if keep_raw:
                        raw.append(event)
                    try:
                        ctx.on_event(event)
                    except Exception as exc:
                        result.events[-1]["on_event_error"] = f"{type(exc).__name__}: {exc}"
                    if on_event is not None:
                        on_event(event, idx, state)
                    if stop_after is not None and idx == stop_after:
                        result.stop_seq = next_seq()
                        stream.stop()
                    if interrupt_after is not None and idx == interrupt_after and type(event).__name__ != "EngineFinished":
                        # (after the final event there is no engine code left to interrupt)
                        result.stop_seq = next_seq()
                        pending_throw = True
                    idx += 1
        finally:
            controller.uninstall()
        result.exit_code = ctx.exit_code
        result.server_log = server.snapshot()
        # what the CLI's own bookkeeping (the source of the FAILURES section and of the JUnit report) retained
        result.reported_failures = [
            {
                "label": label,
                "type": type(failure).__name__,
                "operation": getattr(failure, "operation", None),
                "status_code": getattr(failure, "status_code", None),
                "title": getattr(failure, "title", None),
            }
            for label, by_case in ctx.statistic.failures.items()
            for group in by_case.values()
            for failure in group.failures
        ]
    result.history, result.fired, result.marks = controller.history, controller.fired, controller.marks
    result.signature = controller.signature()
    result.wall = time.monotonic() - started
    if keep_raw:
        result.raw_events = raw
    return result

"""Raw-value capture: records what the data generators produced for each location *before* style
serialisation, string coercion and quoting, so that "conforms to / violates the schema" can be judged on the
generated value itself. Installed from the harness by wrapping the strategy factories the product looks up at
call time (no change to the repository)."""

from __future__ import annotations

import copy


class RawCapture:
    def __init__(self):
        self.records = []  # (location, generator label, value)
        self.installed = False
        self.reach = {}

    def install(self):
        from schemathesis.generation import GenerationMode
        from schemathesis.specs.openapi import _hypothesis as H

        if self.installed:
            return
        self.installed = True
        self._orig = (H.make_positive_strategy, H.make_negative_strategy, dict(H.GENERATOR_MODE_TO_STRATEGY_FACTORY))
        positive = self._wrap(H.make_positive_strategy, "positive")
        negative = self._wrap(H.make_negative_strategy, "negative")
        H.make_positive_strategy = positive
        H.make_negative_strategy = negative
        H.GENERATOR_MODE_TO_STRATEGY_FACTORY[GenerationMode.POSITIVE] = positive
        H.GENERATOR_MODE_TO_STRATEGY_FACTORY[GenerationMode.NEGATIVE] = negative

    def _wrap(self, factory, label):
        records = self.records
        reach = self.reach

        def wrapped(schema, operation_name, location, media_type, generation_config, custom_formats=None):
            strategy = factory(schema, operation_name, location, media_type, generation_config, custom_formats)

            def record(value):
                reach[location] = reach.get(location, 0) + 1
                records.append((location, label, copy.deepcopy(value)))
                return value

            return strategy.map(record)

        wrapped.__name__ = factory.__name__
        return wrapped

    def take(self):
        """Last record per location since the previous call."""
        out = {}
        for location, label, value in self.records:
            out[location] = (label, value)
        del self.records[:]
        return out

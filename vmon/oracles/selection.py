"""Reference for operation selection (C07), over the raw document only.

A filter is a dict of criteria that must all hold (AND):
  path / method / name / tag / operation_id : str or list of str (equality / membership; method case-insensitive)
  *_regex : regex, `search` semantics (method: case-insensitive)
  by : [pointer, op, value]  - JSON pointer into the (resolved) operation definition, op in == / !=
  deprecated : True
An operation is selected iff (no include filters or at least one matches) and no exclude filter matches.
"""

from __future__ import annotations

import re

from . import oas_schema

METHODS = ("get", "put", "post", "delete", "options", "head", "patch", "trace")
MISSING = object()


def operations(doc):
    """[(label, method, path, definition)] for every documented operation (path items behind local $ref resolved)."""
    out = []
    for path, item in (doc.get("paths") or {}).items():
        item = oas_schema.deref(doc, item)
        for method, definition in item.items():
            if method in METHODS:
                out.append((f"{method.upper()} {path}", method.upper(), path, definition))
    return out


def pointer_get(document, pointer, doc=None):
    """JSON pointer into the operation definition; with `doc`, local references met on the way are followed (the
    statement's "by expression" filters see the operation as it is defined, wherever its parts are written down)."""
    if pointer in ("", "/"):
        return document if pointer == "" else MISSING
    if not pointer.startswith("/"):
        return MISSING
    node = document
    for token in pointer[1:].split("/"):
        if doc is not None and isinstance(node, dict) and "$ref" in node:
            try:
                node = oas_schema.deref(doc, node)
            except Exception:
                return MISSING
        token = token.replace("~1", "/").replace("~0", "~")
        if isinstance(node, dict):
            if token not in node:
                return MISSING
            node = node[token]
        elif isinstance(node, list):
            if not re.fullmatch(r"0|[1-9][0-9]*", token) or int(token) >= len(node):
                return MISSING
            node = node[int(token)]
        else:
            return MISSING
    return node


def matches(flt: dict, op, doc=None) -> bool:
    label, method, path, definition = op
    for key, expected in flt.items():
        if key == "deprecated":
            if definition.get("deprecated") is not True:
                return False
            continue
        if key == "by":
            pointer, operator, value = expected
            got = pointer_get(definition, pointer, doc)
            if got is MISSING:
                # nothing at the pointer: it is not equal to the value
                if operator == "==":
                    return False
                continue
            if operator == "==" and got != value:
                return False
            if operator == "!=" and got == value:
                return False
            continue
        regex = key.endswith("_regex")
        attr = key[: -len("_regex")] if regex else key
        if attr == "name":
            values = [label]
        elif attr == "method":
            values = [method]
        elif attr == "path":
            values = [path]
        elif attr == "tag":
            tags = definition.get("tags")
            if tags is None:
                return False
            values = list(tags)
        elif attr == "operation_id":
            if "operationId" not in definition:
                return False
            values = [definition["operationId"]]
        else:
            raise AssertionError(key)
        if regex:
            flags = re.IGNORECASE if attr == "method" else 0
            if not any(re.search(expected, v, flags) for v in values):
                return False
        else:
            options = expected if isinstance(expected, list) else [expected]
            if attr == "method":
                options = [o.upper() for o in options]
            if not any(v in options for v in values):
                return False
    return True


def selected(doc, includes, excludes):
    """-> (set of selected labels, all labels) or None when some verdict is not judged."""
    ops = operations(doc)
    out = set()
    for op in ops:
        verdicts_exc = [matches(f, op, doc) for f in excludes]
        verdicts_inc = [matches(f, op, doc) for f in includes]
        if None in verdicts_exc or None in verdicts_inc:
            return None
        if any(verdicts_exc):
            continue
        if includes and not any(verdicts_inc):
            continue
        out.add(op[0])
    return out, [op[0] for op in ops]


def links(doc):
    """[(source label, target label or None)] for every link definition (3.x `links`)."""
    out = []
    ops = operations(doc)
    by_id = {d.get("operationId"): label for label, _, _, d in ops if "operationId" in d}
    for label, _, _, definition in ops:
        for response in (definition.get("responses") or {}).values():
            response = oas_schema.deref(doc, response)
            for link in (response.get("links") or {}).values():
                link = oas_schema.deref(doc, link)
                target = None
                if "operationId" in link:
                    target = by_id.get(link["operationId"])
                elif "operationRef" in link:
                    ref = link["operationRef"]
                    m = re.fullmatch(r"#/paths/([^/]+)/([a-z]+)", ref)
                    if m:
                        path = m.group(1).replace("~1", "/").replace("~0", "~")
                        target = f"{m.group(2).upper()} {path}"
                out.append((label, target))
    return out

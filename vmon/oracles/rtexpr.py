"""Reference evaluator for OpenAPI runtime expressions (links), written from the OAS ABNF and RFC 6901.

evaluate(expr, exchange) -> value | NOVALUE | raises Malformed | ABSTAIN
exchange = {"method", "url", "query": {}, "path": {}, "headers": {} (request), "body": json|ABSENT,
            "status": int, "response_headers": {name: [values]}, "response_body": json|ABSENT}
"""

from __future__ import annotations

import re


class _Marker:
    def __init__(self, name):
        self.name = name

    def __repr__(self):
        return self.name


NOVALUE = _Marker("NOVALUE")
ABSTAIN = _Marker("ABSTAIN")
ABSENT = _Marker("ABSENT")


class Malformed(Exception):
    pass


TOKEN_CHARS = re.compile(r"^[A-Za-z0-9!#$%&'*+\-.^_`|~]+$")
ARRAY_INDEX = re.compile(r"^(0|[1-9][0-9]*)$")


def pointer(document, ptr: str):
    """RFC 6901."""
    if document is ABSENT:
        return NOVALUE
    if ptr == "":
        return document
    if not ptr.startswith("/"):
        return NOVALUE
    node = document
    for raw in ptr[1:].split("/"):
        token = raw.replace("~1", "/").replace("~0", "~")
        if isinstance(node, dict):
            if token not in node:
                return NOVALUE
            node = node[token]
        elif isinstance(node, list):
            if not ARRAY_INDEX.match(token) or not token.isascii():
                return NOVALUE
            idx = int(token)
            if idx >= len(node):
                return NOVALUE
            node = node[idx]
        else:
            return NOVALUE
    return node


def _single(expr: str, ex):
    """One `$...` expression (no braces)."""
    if expr == "$url":
        return ex["url"]
    if expr == "$method":
        return ex["method"].upper()
    if expr == "$statusCode":
        return str(ex["status"])
    for prefix, is_request in (("$request.", True), ("$response.", False)):
        if expr.startswith(prefix):
            rest = expr[len(prefix):]
            extractor = None
            if rest.startswith("body"):
                tail = rest[4:]
                if tail == "":
                    doc = ex["body"] if is_request else ex["response_body"]
                    return NOVALUE if doc is ABSENT else doc
                if not tail.startswith("#"):
                    raise Malformed(expr)
                return pointer(ex["body"] if is_request else ex["response_body"], tail[1:])
            m = re.match(r"^(header|query|path)\.(.*)$", rest, flags=re.S)
            if not m:
                raise Malformed(expr)
            source, name = m.group(1), m.group(2)
            if not is_request and source != "header":
                raise Malformed(expr)
            if "#regex:" in name:
                name, _, pattern = name.partition("#regex:")
                try:
                    extractor = re.compile(pattern)
                except re.error:
                    raise Malformed(expr)
                if extractor.groups != 1:
                    raise Malformed(expr)
            if name == "" or "#" in name:
                raise Malformed(expr)
            if is_request:
                if source == "header":
                    value = next((v for k, v in (ex["headers"] or {}).items() if k.lower() == name.lower()), NOVALUE)
                else:
                    value = (ex[source] or {}).get(name, NOVALUE)
            else:
                values = next((v for k, v in (ex["response_headers"] or {}).items() if k.lower() == name.lower()), None)
                value = values[0] if values else NOVALUE
            if value is NOVALUE or value is None:
                return NOVALUE
            if extractor is not None:
                if not isinstance(value, str):
                    return ABSTAIN
                match = extractor.search(value)
                if match is None or match.group(1) is None:
                    return NOVALUE
                if match.group(1) == "":
                    return ABSTAIN
                return match.group(1)
            return value
    raise Malformed(expr)


def evaluate(expr, ex):
    if not isinstance(expr, str):
        return expr
    if "{" not in expr and "}" not in expr:
        if expr.startswith("$"):
            return _single(expr, ex)
        if "$" in expr:
            return ABSTAIN  # a constant containing '$' elsewhere: not defined by the specification
        return expr
    # embedded expressions: literal text with {expression} holes; a '}' closes the hole (the product's documented choice)
    out = []
    pos = 0
    while pos < len(expr):
        ch = expr[pos]
        if ch == "{":
            end = expr.find("}", pos)
            if end == -1:
                raise Malformed(expr)
            inner = expr[pos + 1 : end]
            if "{" in inner:
                raise Malformed(expr)
            if not inner.startswith("$"):
                return ABSTAIN
            out.append(("expr", inner))
            pos = end + 1
        elif ch == "}":
            raise Malformed(expr)
        else:
            end = pos
            while end < len(expr) and expr[end] not in "{}":
                end += 1
            literal = expr[pos:end]
            if "$" in literal:
                return ABSTAIN
            out.append(("lit", literal))
            pos = end
    if len(out) == 1 and out[0][0] == "expr":
        # "{$request.path.id}" alone: same as the bare expression, type preserved
        return _single(out[0][1], ex)
    parts = []
    for kind, text in out:
        if kind == "lit":
            parts.append(text)
        else:
            value = _single(text, ex)
            if value is NOVALUE:
                return NOVALUE
            if value is ABSTAIN or isinstance(value, bool) or value is None or isinstance(value, (float, dict, list)):
                return ABSTAIN
            parts.append(str(value))
    return "".join(parts)

"""Reference for C04: does a response deviate from what the document says? Written from the OpenAPI spec.

Every judge returns (verdict, tags): verdict in {"FAIL", "PASS", "ABSTAIN"}; tags are structural facts about how
the verdict was reached (used as mechanism keys, never values).
"""

from __future__ import annotations

import json

from . import oas_schema

FAIL, PASS, ABSTAIN = "FAIL", "PASS", "ABSTAIN"


def find_response(responses: dict, status: int):
    """exact code > NXX wildcard > default. Returns (how, key, definition) or None."""
    by_str = {str(k): v for k, v in responses.items()}
    if str(status) in by_str:
        return "exact", str(status), by_str[str(status)]
    wildcard = f"{status // 100}XX"
    for key, value in by_str.items():
        if key.upper() == wildcard:
            return "wildcard", key, value
    if "default" in by_str:
        return "default", "default", by_str["default"]
    return None


def parse_media_type(value: str):
    """-> (type, subtype) lower-cased, parameters dropped; None when malformed."""
    main = value.split(";", 1)[0].strip()
    if main.count("/") != 1:
        return None
    a, b = main.split("/")
    if not a or not b:
        return None
    return a.lower(), b.lower()


def media_matches(documented: str, received: str) -> bool:
    d, r = parse_media_type(documented), parse_media_type(received)
    if d is None or r is None:
        return False
    return (d[0] in ("*", r[0])) and (d[1] in ("*", r[1]))


def is_json_media(value: str) -> bool:
    parsed = parse_media_type(value)
    return parsed is not None and parsed[0] == "application" and (parsed[1] == "json" or parsed[1].endswith("+json"))


def header_value(headers: dict, name: str):
    for key, values in headers.items():
        if key.lower() == name.lower():
            return values[0] if isinstance(values, list) else values
    return None


def documented_media_types(doc, operation: dict, definition: dict, version: str):
    if version == "2.0":
        produces = operation.get("produces")
        if produces:
            return list(produces)
        return list(doc.get("produces", []))
    return list((definition or {}).get("content", {}).keys())


def judge_status(doc, operation, status, version):
    found = find_response(operation.get("responses", {}), status)
    if found is None:
        return FAIL, ("undocumented-status",)
    return PASS, (f"status-{found[0]}",)


def judge_content_type(doc, operation, status, headers, version):
    found = find_response(operation.get("responses", {}), status)
    if version == "2.0":
        definition = oas_schema.deref(doc, found[2]) if found else None
        how = found[0] if found else "none"
    else:
        if found is None:
            return PASS, ("no-definition",)
        how = found[0]
        definition = oas_schema.deref(doc, found[2])
    documented = documented_media_types(doc, operation, definition, version)
    if not documented:
        return PASS, (f"status-{how}", "no-media-types")
    received = header_value(headers, "content-type")
    if received is None:
        return FAIL, (f"status-{how}", "missing-content-type")
    if parse_media_type(received) is None:
        if any(parse_media_type(option) == ("*", "*") for option in documented):
            # "anything goes" is documented; whether a malformed value "matches" it is left open
            return ABSTAIN, (f"status-{how}", "malformed-content-type-vs-any")
        return FAIL, (f"status-{how}", "malformed-content-type")
    for idx, option in enumerate(documented):
        if media_matches(option, received):
            kind = "exact" if "*" not in option else "wildcard"
            return PASS, (f"status-{how}", f"media-{kind}", "first" if idx == 0 else "non-first")
    return FAIL, (f"status-{how}", "undocumented-media-type")


HEADER_REQUIRED = {"2.0": "x-required", "3.0": "required", "3.1": "required"}


def coerce_header(value: str, schema: dict):
    """All typed readings of a header string that the schema's `type` could intend."""
    readings = [value]
    type_ = schema.get("type") if isinstance(schema, dict) else None
    if type_ == "integer":
        try:
            readings = [int(value)]
        except ValueError:
            pass
    elif type_ == "number":
        try:
            readings = [float(value)]
        except ValueError:
            pass
    elif type_ == "boolean":
        if value.lower() in ("true", "1"):
            readings = [True]
        elif value.lower() in ("false", "0"):
            readings = [False]
    elif type_ == "null" and value.lower() == "null":
        readings = [None]
    return readings


def judge_headers(doc, operation, status, headers, version):
    found = find_response(operation.get("responses", {}), status)
    if found is None:
        return PASS, ("no-definition",)
    how = found[0]
    definition = oas_schema.deref(doc, found[2])
    defined = definition.get("headers") or {}
    if not defined:
        return PASS, (f"status-{how}", "no-headers")
    tags = [f"status-{how}"]
    verdict = PASS
    for name, header_def in defined.items():
        header_def = oas_schema.deref(doc, header_def)
        value = header_value(headers, name)
        if value is None:
            if header_def.get(HEADER_REQUIRED[version], False):
                verdict = FAIL
                tags.append("missing-required-header")
            continue
        schema = header_def if version == "2.0" else header_def.get("schema", {})
        schema = oas_schema._peek(doc, schema)
        if isinstance(schema, dict) and schema.get("type") in ("array", "object"):
            return ABSTAIN, tuple(tags + ["structured-header"])
        ok = any(
            oas_schema.is_valid(reading, schema, doc=doc, version=version, mode="response")
            for reading in coerce_header(value, schema if isinstance(schema, dict) else {})
        )
        if not ok:
            verdict = FAIL
            tags.append("invalid-header-value")
    return verdict, tuple(tags)


def select_schema(doc, operation, definition, headers, version):
    """-> (schema|None, tags, abstain)."""
    if version == "2.0":
        return definition.get("schema"), ("swagger-schema",), False
    content = definition.get("content") or {}
    if not content:
        return None, ("no-content",), False
    received = header_value(headers, "content-type")
    if received is None or parse_media_type(received) is None:
        return None, ("no-usable-content-type",), True
    keys = list(content)
    best = None
    for rank, predicate in enumerate(
        (
            lambda k: parse_media_type(k) == parse_media_type(received),
            lambda k: "*" in k and not k.startswith("*/") and media_matches(k, received),
            lambda k: media_matches(k, received),
        )
    ):
        for idx, key in enumerate(keys):
            if predicate(key):
                best = (idx, key, rank)
                break
        if best:
            break
    if best is None:
        return None, ("undocumented-media-type",), True
    idx, key, rank = best
    entry = content[key] or {}
    tags = ("media-exact" if rank == 0 else "media-wildcard", "first" if idx == 0 else "non-first")
    return entry.get("schema"), tags, False


def judge_schema(doc, operation, status, headers, body: bytes, version):
    found = find_response(operation.get("responses", {}), status)
    if found is None:
        return PASS, ("no-definition",)
    how = found[0]
    definition = oas_schema.deref(doc, found[2])
    schema, tags, abstain = select_schema(doc, operation, definition, headers, version)
    tags = (f"status-{how}",) + tuple(tags)
    if abstain:
        return ABSTAIN, tags
    if not schema:
        return PASS, tags + ("no-schema",)
    received = header_value(headers, "content-type")
    if received is None or parse_media_type(received) is None:
        return ABSTAIN, tags + ("no-usable-content-type",)
    if not is_json_media(received):
        return ABSTAIN, tags + ("non-json-media",)
    try:
        instance = json.loads(body.decode("utf-8"))
    except (ValueError, UnicodeDecodeError):
        return FAIL, tags + ("malformed-json",)
    errs = oas_schema.errors(instance, schema, doc=doc, version=version, mode="response")
    if errs:
        kw = sorted({e.validator for e in errs})
        extra = ()
        if kw == ["not"] and isinstance(instance, dict):
            top = oas_schema._peek(doc, schema)
            flags = ("writeOnly", "x-writeOnly")
            declared = [
                name
                for name, sub in (top.get("properties") or {}).items()
                if any((oas_schema._peek(doc, sub) or {}).get(flag) is True for flag in flags)
            ]
            present = [name for name in declared if name in instance]
            if len(declared) >= 2 and 0 < len(present) < len(declared):
                extra = ("several-writeonly-declared-some-present",)
            elif declared:
                extra = ("all-declared-writeonly-present",)
        return FAIL, tags + ("schema-violation",) + tuple(f"kw-{k}" for k in kw[:2]) + extra
    return PASS, tags + ("valid-instance",)

"""Independent OpenAPI-schema-object -> JSON Schema reference (request / response mode).

Written from the OpenAPI 2.0 / 3.0 / 3.1 specifications. It uses `jsonschema` only as a validator engine; none of
the product's conversion code is used.

  * 2.0 / 3.0: JSON Schema draft 4 semantics (boolean exclusiveMinimum/Maximum are native there), `nullable` /
    `x-nullable`, `type: file`.
  * 3.1: draft 2020-12.
  * request mode: a property whose schema is readOnly must be absent (and cannot be required);
    response mode: same for writeOnly / x-writeOnly.
  * local `$ref`s are inlined against the raw document, with a recursion guard (beyond it: accept anything).
  * formats: only the ones with an exact independent checker are judged (JUDGED_FORMATS); everything else is
    not checked, so the oracle never demands more than the statement.
"""

from __future__ import annotations

import base64
import copy
import datetime
import ipaddress
import re
import uuid

import jsonschema

JUDGED_FORMATS = ("date", "date-time", "uuid", "ipv4", "ipv6", "byte")
RECURSION_LIMIT = 3

_checker = jsonschema.FormatChecker(formats=())


@_checker.checks("date")
def _is_date(value):
    if not isinstance(value, str):
        return True
    if not re.fullmatch(r"\d{4}-\d{2}-\d{2}", value):
        return False
    try:
        datetime.date(int(value[:4]), int(value[5:7]), int(value[8:10]))
        return True
    except ValueError:
        return False


@_checker.checks("date-time")
def _is_datetime(value):
    if not isinstance(value, str):
        return True
    m = re.fullmatch(
        r"(\d{4})-(\d{2})-(\d{2})[Tt ](\d{2}):(\d{2}):(\d{2})(\.\d+)?([Zz]|[+-]\d{2}:\d{2})", value, flags=re.ASCII
    )
    if not m:
        return False
    try:
        datetime.date(int(m.group(1)), int(m.group(2)), int(m.group(3)))
    except ValueError:
        return False
    hour, minute, second = int(m.group(4)), int(m.group(5)), int(m.group(6))
    if hour > 23 or minute > 59 or second > 60:
        return False
    offset = m.group(8)
    if offset not in ("Z", "z"):
        if int(offset[1:3]) > 23 or int(offset[4:6]) > 59:
            return False
    return True


@_checker.checks("uuid")
def _is_uuid(value):
    if not isinstance(value, str):
        return True
    try:
        uuid.UUID(value)
        return True
    except ValueError:
        return False


@_checker.checks("ipv4")
def _is_ipv4(value):
    if not isinstance(value, str):
        return True
    try:
        ipaddress.IPv4Address(value)
        return True
    except ValueError:
        return False


@_checker.checks("ipv6")
def _is_ipv6(value):
    if not isinstance(value, str):
        return True
    try:
        ipaddress.IPv6Address(value)
        return True
    except ValueError:
        return False


@_checker.checks("byte")
def _is_byte(value):
    if not isinstance(value, str):
        return True
    try:
        base64.b64decode(value.encode("ascii"), validate=True)
        return True
    except Exception:
        return False


FORMAT_CHECKER = _checker


def resolve_pointer(doc, ref: str):
    if not ref.startswith("#"):
        raise KeyError(ref)
    node = doc
    pointer = ref[1:]
    if pointer in ("", "/"):
        return node
    for token in pointer.lstrip("/").split("/"):
        token = token.replace("~1", "/").replace("~0", "~")
        from urllib.parse import unquote

        token = unquote(token)
        if isinstance(node, list):
            node = node[int(token)]
        else:
            node = node[token]
    return node


def deref(doc, obj, limit=20):
    """Follow `$ref` chains of a non-schema object (parameter, response, header, ...)."""
    while isinstance(obj, dict) and "$ref" in obj and limit:
        obj = resolve_pointer(doc, obj["$ref"])
        limit -= 1
    return obj


SCHEMA_MAP_KEYWORDS = ("properties", "patternProperties", "definitions", "$defs", "dependentSchemas")
SCHEMA_LIST_KEYWORDS = ("allOf", "anyOf", "oneOf", "prefixItems")
SCHEMA_KEYWORDS = ("not", "additionalProperties", "additionalItems", "contains", "propertyNames", "if", "then", "else", "unevaluatedProperties", "unevaluatedItems")


def convert(schema, *, doc, version: str, mode: str, _stack=()):
    """OpenAPI schema object -> plain JSON Schema with the OpenAPI semantics compiled in."""
    if isinstance(schema, bool) or not isinstance(schema, dict):
        return schema
    if "$ref" in schema:
        ref = schema["$ref"]
        if _stack.count(ref) >= RECURSION_LIMIT:
            return {}
        target = resolve_pointer(doc, ref)
        return convert(target, doc=doc, version=version, mode=mode, _stack=_stack + (ref,))
    out = {}
    for key, value in schema.items():
        if key in SCHEMA_MAP_KEYWORDS and isinstance(value, dict):
            out[key] = {k: convert(v, doc=doc, version=version, mode=mode, _stack=_stack) for k, v in value.items()}
        elif key in SCHEMA_LIST_KEYWORDS and isinstance(value, list):
            out[key] = [convert(v, doc=doc, version=version, mode=mode, _stack=_stack) for v in value]
        elif key in SCHEMA_KEYWORDS and isinstance(value, (dict, bool)):
            out[key] = convert(value, doc=doc, version=version, mode=mode, _stack=_stack)
        elif key == "items":
            if isinstance(value, list):
                out[key] = [convert(v, doc=doc, version=version, mode=mode, _stack=_stack) for v in value]
            else:
                out[key] = convert(value, doc=doc, version=version, mode=mode, _stack=_stack)
        elif key in ("nullable", "x-nullable", "readOnly", "writeOnly", "x-writeOnly", "example", "examples", "default", "discriminator", "xml", "externalDocs", "deprecated"):
            continue
        else:
            out[key] = copy.deepcopy(value)
    if version != "3.1":
        if out.get("type") == "file":
            out["type"] = "string"
            out.pop("format", None)
    # forbidden properties for this direction
    flag_names = ("readOnly",) if mode == "request" else ("writeOnly", "x-writeOnly")
    props = schema.get("properties")
    forbidden = []
    if isinstance(props, dict):
        for name, sub in props.items():
            sub = _peek(doc, sub)
            if isinstance(sub, dict) and any(sub.get(flag) is True for flag in flag_names):
                forbidden.append(name)
    if forbidden:
        if isinstance(out.get("required"), list):
            out["required"] = [r for r in out["required"] if r not in forbidden]
            if not out["required"]:
                del out["required"]
        for name in forbidden:
            out.get("properties", {}).pop(name, None)
        out = {"allOf": [out] + [{"not": {"type": "object", "required": [name]}} for name in forbidden]}
    nullable = (version == "3.0" and schema.get("nullable") is True) or (
        version == "2.0" and schema.get("x-nullable") is True
    )
    if nullable:
        out = {"anyOf": [out, {"type": "null"}]}
    return out


def _peek(doc, sub, limit=10):
    while isinstance(sub, dict) and "$ref" in sub and limit:
        try:
            sub = resolve_pointer(doc, sub["$ref"])
        except (KeyError, IndexError, ValueError):
            return sub
        limit -= 1
    return sub


def validator_for(schema, *, doc, version: str, mode: str):
    converted = convert(schema, doc=doc, version=version, mode=mode)
    cls = jsonschema.Draft202012Validator if version == "3.1" else jsonschema.Draft4Validator
    return cls(converted, format_checker=FORMAT_CHECKER)


def errors(instance, schema, *, doc, version: str, mode: str):
    """List of jsonschema errors (empty = valid)."""
    return list(validator_for(schema, doc=doc, version=version, mode=mode).iter_errors(instance))


def is_valid(instance, schema, *, doc, version: str, mode: str) -> bool:
    return validator_for(schema, doc=doc, version=version, mode=mode).is_valid(instance)


def failing_keywords(instance, schema, *, doc, version: str, mode: str) -> set:
    out = set()

    def walk(err):
        out.add(err.validator)
        for sub in err.context or ():
            walk(sub)

    for err in errors(instance, schema, doc=doc, version=version, mode=mode):
        walk(err)
    return out


def doc_version(doc) -> str:
    if "swagger" in doc:
        return "2.0"
    if str(doc.get("openapi", "")).startswith("3.1"):
        return "3.1"
    return "3.0"

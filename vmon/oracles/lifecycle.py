"""Reference predicates for C18, written from the property statement only.

A history is a list of Node in chronological order; `parent` is an index into the list or None.
The newest node (last) is the request being judged.
"""

from __future__ import annotations

from dataclasses import dataclass


@dataclass
class Node:
    method: str
    template: str
    variables: dict
    status: int
    parent: int | None
    all_from_link: bool


def root_of(nodes, idx):
    while nodes[idx].parent is not None:
        idx = nodes[idx].parent
    return idx


def same_tree(nodes, a, b):
    return root_of(nodes, a) == root_of(nodes, b)


def segments(template):
    return [s for s in template.strip("/").split("/")]


def is_resource_prefix(short: Node, long: Node) -> bool:
    """`short`'s path template is a prefix of `long`'s and the identifiers on the shared part are equal.

    Literal segments must be equal; variable segments must hold equal identifier values (compared as text, which
    is how they travel in a URL)."""
    a, b = segments(short.template), segments(long.template)
    if len(a) > len(b):
        return False
    for left, right in zip(a, b):
        lvar, rvar = left.startswith("{"), right.startswith("{")
        if lvar != rvar:
            return False
        if lvar:
            if str(short.variables[left[1:-1]]) != str(long.variables[right[1:-1]]):
                return False
        elif left != right:
            return False
    return True


def uaf_due(nodes) -> bool:
    """Use-after-free is due for the newest request."""
    last_idx = len(nodes) - 1
    last = nodes[last_idx]
    if last.status == 404 or last.status >= 500:
        return False
    for idx, node in enumerate(nodes[:-1]):
        if (
            node.method == "DELETE"
            and 200 <= node.status < 300
            and same_tree(nodes, idx, last_idx)
            and is_resource_prefix(node, last)
        ):
            return True
    return False


def rnaac_allowed(nodes):
    """May 'resource not available after creation' be reported for the newest request?

    True / False, or None where the statement leaves it open (parent POST answered 3xx)."""
    last_idx = len(nodes) - 1
    last = nodes[last_idx]
    if not (400 <= last.status < 500):
        return False
    if last.parent is None:
        return False
    parent = nodes[last.parent]
    if parent.method != "POST" or not is_resource_prefix(parent, last):
        return False
    if not last.all_from_link:
        return False
    if not (200 <= parent.status < 400):
        return False
    # a successful DELETE of this resource between the POST and this request
    for idx in range(last.parent + 1, last_idx):
        node = nodes[idx]
        if (
            node.method == "DELETE"
            and 200 <= node.status < 300
            and same_tree(nodes, idx, last_idx)
            and is_resource_prefix(node, last)
        ):
            return False
    if 300 <= parent.status < 400:
        return None
    return True

"""Event-stream protocol automaton for C11, written from the property statement.

Input: the list of serialised engine events (see vmon.instr.engine.serialise_event) in the order the consumer
received them, and whether the run was interrupted (a stop was requested by the consumer, Ctrl-C was delivered,
or an `Interrupted` event is in the stream). Output: list of (key, explanation) violations.
"""

from __future__ import annotations

PHASE_ORDER = ["PROBING", "EXAMPLES", "COVERAGE", "FUZZING", "STATEFUL_TESTING"]
RANK = {"SUCCESS": 0, "FAILURE": 1, "ERROR": 2, "INTERRUPTED": 3}
ENGINE_EVENT_TYPES = {
    "EngineStarted",
    "EngineFinished",
    "PhaseStarted",
    "PhaseFinished",
    "SuiteStarted",
    "SuiteFinished",
    "ScenarioStarted",
    "ScenarioFinished",
    "NonFatalError",
    "FatalError",
    "Interrupted",
}


def check(events, interrupted_by_consumer=False):
    events = [e for e in events if e["type"] in ENGINE_EVENT_TYPES]
    out = []

    def bad(key, text):
        out.append((key, text))

    if not events:
        return [("C11/empty-stream", "no engine events at all")]
    interrupted = interrupted_by_consumer or any(e["type"] == "Interrupted" for e in events)
    if events[0]["type"] != "EngineStarted":
        bad("C11/first-event-not-start", f"first event is {events[0]['type']}")
    starts = [i for i, e in enumerate(events) if e["type"] == "EngineStarted"]
    finishes = [i for i, e in enumerate(events) if e["type"] == "EngineFinished"]
    if len(starts) != 1:
        bad("C11/start-event-count", f"{len(starts)} EngineStarted events")
    if len(finishes) != 1:
        bad("C11/finish-event-count", f"{len(finishes)} EngineFinished events")
    elif finishes[0] != len(events) - 1:
        bad("C11/events-after-finish", f"{len(events) - 1 - finishes[0]} events after EngineFinished: {[e['type'] for e in events[finishes[0] + 1:]][:5]}")
    if any(e["type"] == "FatalError" for e in events):
        bad("C11/fatal-error-event", "stream contains FatalError")

    open_phase = None
    seen_phases = []
    open_suites = {}  # id -> phase
    closed_suites = set()
    open_scenarios = {}  # id -> (suite, phase, label)
    closed_scenarios = set()
    scenario_status_by_suite = {}
    suite_status_by_phase = {}
    scenario_status_by_phase = {}
    for idx, e in enumerate(events):
        t = e["type"]
        if t == "PhaseStarted":
            if open_phase is not None:
                bad("C11/phase-opened-inside-phase", f"{e['phase']} opened while {open_phase} is open")
            if e["phase"] in seen_phases:
                bad("C11/phase-opened-twice", f"{e['phase']} opened twice")
            if seen_phases and e["phase"] in PHASE_ORDER and seen_phases[-1] in PHASE_ORDER:
                if PHASE_ORDER.index(e["phase"]) != PHASE_ORDER.index(seen_phases[-1]) + 1:
                    bad("C11/phase-order", f"{e['phase']} follows {seen_phases[-1]}")
            elif not seen_phases and e["phase"] != PHASE_ORDER[0]:
                bad("C11/phase-order", f"first phase is {e['phase']}")
            seen_phases.append(e["phase"])
            open_phase = e["phase"]
        elif t == "PhaseFinished":
            if open_phase != e["phase"]:
                bad("C11/phase-closed-without-open", f"{e['phase']} closed while open phase is {open_phase}")
            for sid, phase in list(open_suites.items()):
                if phase == e["phase"]:
                    bad("C11/suite-unclosed-at-phase-end", f"suite of {phase} still open at PhaseFinished")
            worst = max((RANK[s] for s in suite_status_by_phase.get(e["phase"], []) if s in RANK), default=None)
            worst_sc = max((RANK[s] for s in scenario_status_by_phase.get(e["phase"], []) if s in RANK), default=None)
            for what, w in (("suite", worst), ("scenario", worst_sc)):
                # only failures/errors/interruptions have to propagate upwards (SKIP vs SUCCESS is not ordered)
                if w is not None and w >= 1 and (e["status"] not in RANK or RANK[e["status"]] < w):
                    bad(
                        f"C11/phase-status-better-than-worst-{what}",
                        f"phase {e['phase']} status {e['status']} but worst {what} rank {w}",
                    )
            open_phase = None
        elif t == "SuiteStarted":
            if open_phase != e["phase"]:
                bad("C11/suite-outside-its-phase", f"suite of {e['phase']} opened while open phase is {open_phase}")
            if e["id"] in open_suites or e["id"] in closed_suites:
                bad("C11/suite-id-reused", e["id"])
            open_suites[e["id"]] = e["phase"]
        elif t == "SuiteFinished":
            if e["id"] not in open_suites:
                bad("C11/suite-closed-without-open", f"SuiteFinished {e['phase']} without matching SuiteStarted")
            else:
                if open_suites[e["id"]] != e["phase"]:
                    bad("C11/suite-phase-mismatch", f"{open_suites[e['id']]} vs {e['phase']}")
                del open_suites[e["id"]]
                closed_suites.add(e["id"])
            unclosed = [v for v in open_scenarios.values() if v[0] == e["id"]]
            if unclosed and not interrupted:
                bad(
                    "C11/scenario-unclosed-at-suite-end",
                    f"{len(unclosed)} scenario(s) of {e['phase']} still open at SuiteFinished without interruption: {[u[2] for u in unclosed][:4]}",
                )
            worst = max((RANK[s] for s in scenario_status_by_suite.get(e["id"], []) if s in RANK), default=None)
            if worst is not None and worst >= 1 and (e["status"] not in RANK or RANK[e["status"]] < worst):
                bad("C11/suite-status-better-than-worst-scenario", f"suite {e['phase']} status {e['status']} but worst scenario rank {worst}")
            suite_status_by_phase.setdefault(e["phase"], []).append(e["status"])
        elif t == "ScenarioStarted":
            if e["suite_id"] not in open_suites:
                bad("C11/scenario-outside-open-suite", f"ScenarioStarted {e.get('label')} for a suite that is not open")
            elif open_suites[e["suite_id"]] != e["phase"]:
                bad("C11/scenario-phase-mismatch", f"{e['phase']} vs suite {open_suites[e['suite_id']]}")
            if e["id"] in open_scenarios or e["id"] in closed_scenarios:
                bad("C11/scenario-id-reused", e["id"])
            open_scenarios[e["id"]] = (e["suite_id"], e["phase"], e.get("label"))
        elif t == "ScenarioFinished":
            if e["id"] not in open_scenarios:
                bad("C11/scenario-closed-without-open", f"ScenarioFinished {e.get('label')} ({e['phase']}) without matching ScenarioStarted")
            else:
                suite_id, phase, label = open_scenarios.pop(e["id"])
                closed_scenarios.add(e["id"])
                if suite_id != e["suite_id"]:
                    bad("C11/scenario-suite-mismatch", f"{label}")
                if suite_id not in open_suites:
                    bad("C11/scenario-closed-outside-open-suite", f"{label} ({phase}) closed after its suite")
            scenario_status_by_suite.setdefault(e["suite_id"], []).append(e["status"])
            scenario_status_by_phase.setdefault(e["phase"], []).append(e["status"])
        elif t in ("NonFatalError", "Interrupted", "EngineStarted", "EngineFinished", "FatalError"):
            pass
    if open_phase is not None:
        bad("C11/phase-unclosed-at-end", f"{open_phase} never closed")
    if open_suites:
        bad("C11/suite-unclosed-at-end", f"{sorted(set(open_suites.values()))}")
    if open_scenarios and not interrupted:
        bad("C11/scenario-unclosed-at-end", f"{[v[2] for v in open_scenarios.values()][:4]} without interruption")
    if not interrupted and seen_phases != PHASE_ORDER:
        bad("C11/phases-missing", f"phases seen: {seen_phases}")
    return out

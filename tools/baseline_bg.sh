#!/bin/bash
# Runs the guard-off baseline against a scratch worktree of /repo's HEAD (so /repo stays editable).
# usage: tools/baseline_bg.sh <logfile>
WT=$(mktemp -d /tmp/verif-wt.XXXXXX)
git -C /repo worktree add -q --detach "$WT" HEAD || exit 2
echo "baseline of $(git -C /repo rev-parse --short HEAD)" > "$1"
BASELINE_REPO="$WT" bash "$(dirname "$0")/baseline_off.sh" -n 12 >> "$1" 2>&1
echo "exit=$?" >> "$1"
git -C /repo worktree remove --force "$WT"

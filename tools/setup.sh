#!/bin/bash
# Offline setup: contracts libraries beside (after) the repository's interpreter packages.
cd "$(dirname "$0")/.." || exit 1
mkdir -p .deps evidence
if [ ! -d .deps/icontract ]; then
  /venv/bin/pip install --quiet --no-index --find-links /opt/veriftools/wheels --no-deps --target .deps icontract deal asttokens 2>&1 | tail -n 2
fi
/venv/bin/python -c "import schemathesis, sys; print('schemathesis from', schemathesis.__file__)"

#!/bin/bash
# tools/store_mutant.sh <dir with patch.diff demo.py notes.md> <PROP> <mN> "<change>" "<needs>" "<detection>"
# Re-runs the demo in a scratch worktree of /repo HEAD (clean: exit 0, patched: exit != 0), then stores the change
# under seeded/<PROP>/<mN>/ with a meta.json. Nothing is ever applied to /repo itself here.
set -u
SRC="$1"; PROP="$2"; M="$3"; CHANGE="$4"; NEEDS="$5"; DETECT="$6"
WT=$(mktemp -d /tmp/verif-mutwt.XXXXXX); rmdir "$WT"
git -C /repo worktree add -q --detach "$WT" HEAD || exit 2
trap 'git -C /repo worktree remove --force "$WT" >/dev/null 2>&1; rm -rf "$WT"' EXIT
run_demo() { (cd "$WT" && env -u SCHEMATHESIS_VERIF PYTHONPATH="$WT/src" timeout 600 /venv/bin/python "$SRC/demo.py" >/dev/null 2>&1; echo $?); }
clean=$(run_demo)
git -C "$WT" apply "$SRC/patch.diff" || { echo "patch does not apply"; exit 2; }
patched=$(run_demo)
echo "$PROP $M demo: clean=$clean patched=$patched"
if [ "$clean" != "0" ] || [ "$patched" = "0" ]; then echo "NOT CONFIRMED"; exit 1; fi
DST="/verif/seeded/$PROP/$M"; mkdir -p "$DST"
cp "$SRC/patch.diff" "$SRC/demo.py" "$DST/"; [ -f "$SRC/notes.md" ] && cp "$SRC/notes.md" "$DST/"
/venv/bin/python - "$DST" "$PROP" "$CHANGE" "$NEEDS" "$DETECT" <<'PY'
import json, sys
dst, prop, change, needs, detect = sys.argv[1:]
json.dump({
    "property": prop, "change": change, "needs_to_manifest": needs,
    "origin": "independent sub-agent given only the property text and a scratch worktree",
    "confirmed": "demo.py exits 0 on the clean tree and non-zero with patch.diff applied (re-run by tools/store_mutant.sh in a scratch worktree); sub-agent reports no new failures in the related test files",
    "detection": detect,
    "commands": [f"tools/try_mutant.sh {dst}/patch.diff {prop}"],
}, open(dst + "/meta.json", "w"), indent=1)
PY

#!/usr/bin/env python3
"""Regenerates MANIFEST.json from the table below (kept as code so that the file is always valid)."""
import json, os

HERE = os.path.dirname(os.path.dirname(os.path.abspath(__file__)))

CHECKS = {
    "C18": dict(
        category="exploration",
        text="Exhaustive enumeration of all scenario forests of <=3 requests over a 7-operation/2-resource universe (two operations also take a "
    "query parameter; the newest case's parameters come all / only the path ones / none from a link) plus "
        "seeded-random longer histories; the real use_after_free / ensure_resource_availability functions run on real "
        "Case/Response/Recorder objects and are compared with reference predicates written from the statement.",
        note="Histories are hand-built recorder contents, not live traffic; the path-matching reference is independent of the product's.",
        technique="runtime monitoring: reference-model oracle over enumerated histories fed to the real check functions",
        design_ref="DESIGN.md#c18",
    ),
}

CHECKS["C19"] = dict(
    category="exploration",
    text="Registration scripts (every sequence of <=2 decorator-form x scope steps, sampled longer ones, interleaved with "
    "unregister/unregister_all; auth register/apply/set_from_requests at three scopes) run against the real dispatchers and "
    "auth storages; hooks log the operations they are invoked for while real cases are drawn; a reference list of "
    "(hook, own filters, scope) with an independent matcher decides which invocations must and must not happen.",
    note="4-operation API; filters from a pool of 12; auth precedence between several matching providers is not judged.",
    technique="runtime monitoring: self-reporting hooks + reference model over registration histories",
    design_ref="DESIGN.md#c19",
)

CHECKS["C04"] = dict(
    category="exploration",
    text="Generated (document, response) pairs - response maps over exact codes, NXX ranges and default, several media types "
    "with different schemas, $ref'd responses/schemas/headers, nullable, writeOnly, OpenAPI 2.0/3.0/3.1 - are judged by the four "
    "real conformance checks through case.validate_response; each verdict is compared in both directions with an independent "
    "reading of the document that abstains where the specification leaves the verdict open.",
    note="Responses are synthesised Response objects; jsonschema is trusted as validator engine; formats are not judged.",
    technique="runtime monitoring: differential oracle (reference conformance model) over generated documents and responses",
    design_ref="DESIGN.md#c04",
)

CHECKS["C11"] = dict(
    category="exploration",
    text="Real engine runs against a scripted loopback API; the whole event stream is fed to a protocol automaton written from "
    "the statement. Per base run: stream.stop() after EVERY event index, KeyboardInterrupt thrown into the stream at every "
    "index, single delays at each guarded schedule point (incl. the consumer's Empty/liveness window), seeded jitter under a "
    "1us switch interval, single injected worker faults; workers 1/2/4, failure limits, continue_on_failure, unique_inputs.",
    note="Interleavings are those reachable by delays at the listed points and OS pre-emption; evidence reports distinct signatures, not coverage.",
    technique="runtime monitoring: online protocol automaton over the real event stream under stop/interrupt enumeration, schedule-point delays and fault injection",
    design_ref="DESIGN.md#c11",
)

CHECKS["C05"] = dict(
    category="fault_enumeration",
    text="Real runs (in-process `st run` for the real exit code and report, and from_schema().execute() with the CLI's own "
    "ExecutionContext) against a scripted API whose log is the ground truth; every behaviour (5xx / undocumented status / wrong "
    "content type / bad body / closed connection on the k-th request) and every single fault at each guarded pipeline point "
    "(test construction, case entry, transport, check execution, stateful step, task producer, CLI handler; hit<=3) plus the "
    "consumer-race delays are enumerated per base configuration. Oracle: ground truth => failed scenario+phase, failure recorded "
    "with the offending request, exit!=0; exit 0 => nothing went wrong and every operation is accounted for. Also: an error event "
    "that names no operation (unresolvable path item) makes its phase errored, and a failure of a check on a request it derived itself "
    "(ignored_auth) is filed under that request, also under continue-on-failure; a scenario whose recorder holds a failed check "
    "never finishes SUCCESS.",
    note="Single faults at the guarded points, not at arbitrary bytecodes; runs cut short by max_failures are judged on exit code and >=1 recorded failure.",
    technique="runtime monitoring: fault injection at guarded hook points + ground-truth (server log) vs report oracle",
    design_ref="DESIGN.md#c05",
)

CHECKS["C12"] = dict(
    category="exploration",
    text="Real engine runs; the API's request log (logical sequence, monotonic time, test-case id header) is joined with the "
    "recorders to count requests per phase/operation/scenario: fuzzing requests <= max_examples on unfailed operations, steps per "
    "stateful scenario <= step count, failed scenarios <= max_failures and later phases SKIP(failure limit reached) with no "
    "requests, <= one request per worker after stop() (stop indices sampled, delays at case entry/transport; for a document whose "
    "links form a cycle also stops issued from the API's side while a request of a long sequence is served, step counts below "
    "Hypothesis' default, runs with Hypothesis' phases left default), no duplicate "
    "request under unique_inputs where collisions are forced, no gross rate-limit breach with 1 and 4 workers.",
    note="Rate limit: only more than `limit` requests within half a period is a verdict. Stop: one in-flight request per worker is allowed.",
    technique="runtime monitoring: conservation/bound counters over the server-side request log joined with the event stream",
    design_ref="DESIGN.md#c12",
)

CHECKS["C13"] = dict(
    category="exploration",
    text="Per comparison group (document incl. filtered patterns/formats, examples, links, multi-file; phase subsets; modes; seed) the "
    "request log of the deterministic API is compared: two fresh processes with the same seed and different PYTHONHASHSEED, two "
    "runs in one process (sequence equality per phase, equal failure sets), 1 vs 2 vs 4 workers under seeded schedule jitter "
    "(per-operation multiset equality in the unit phases); a different seed must be able to differ. The seed as given on the real "
    "command line (`st run --seed N`, N = 0 and 7) is probed with two runs each.",
    note="Per-case id header, User-Agent and Host are excluded; every module of the product and the harness is imported before the first run (Hypothesis' constants pool follows imported local modules; an editable install makes the product local); a fresh child is not compared with the long-lived shard process.",
    technique="runtime monitoring: offline comparison of recorded request logs across processes, repetitions and worker counts",
    design_ref="DESIGN.md#c13",
)

CHECKS["C07"] = dict(
    category="exploration",
    text="Every single filter of every kind and every include x exclude pair over a 7-operation universe (shared and $ref'd path items, "
    "untagged / id-less / deprecated operations, links by operationId and operationRef), through schema.include/exclude and through "
    "the CLI's FilterArguments, and through sibling schemas derived from an already filtered base (before and after the one under test); "
    "observed: offered operations, selected/total statistics for operations and links, state-machine "
    "transitions; sampled full engine runs (all phases, 2 workers, both modes) and real `st run` flags judged on the API's request log; "
    "pytest parametrize and lazy fixtures in a pytest subprocess. Oracle: independent selection predicate over the raw document.",
    note="Requests with undocumented methods (coverage phase) are not attributed to operations.",
    technique="runtime monitoring: reference selection model vs observed offers, statistics, transitions and server-side request log",
    design_ref="DESIGN.md#c07",
)

CHECKS["C14"] = dict(
    category="exploration",
    text="Real `st run` invocations (in-process) with combinations of --header (incl. a declared header in another case), --auth, "
    "--set-query/-header/-cookie/-path and global auth providers (plain and filtered), workers 1/2/4, all phases incl. link-derived "
    "requests, ignored_auth on/off; every request in the API's log is checked for the user's value (exactly one value per name), the "
    "recorders identify the probes of ignored_auth. Provider caches are stressed directly from 2-8 threads with a virtual timer, keys "
    "from a small set and delays at the three guarded cache points; every underlying fetch is logged.",
    note="An override is expected on the operations that declare the parameter; provider refresh is judged in virtual time.",
    technique="runtime monitoring: server-side request log invariants + exactly-once-per-interval check over recorded provider histories",
    design_ref="DESIGN.md#c14",
)

CHECKS["C10"] = dict(
    category="exploration",
    text="(1) The real expression evaluator and link constructor on expressions generated from the OAS ABNF (all variables, "
    "mixed-case names, RFC 6901 pointers with escapes and hostile array tokens, 1-3 embedded holes, regex extractors) and on "
    "malformed neighbours, against a reference evaluator, over random JSON bodies/headers/statuses. (2) Live stateful phases against "
    "an API with links on exact codes, 2XX and default (operationId/operationRef, explicit and implicit locations, nested request "
    "bodies): each link-derived request is paired through recorder parent ids and the test-case id header with its actual source "
    "exchange in the API log and compared on the wire with what the expressions denote; the source status must match the link's key, "
    "read against the documented codes of the transition's own source operation (two sources whose `default` stands for different codes).",
    note="Rendering of non-string values inside templates and '$' inside constants are not judged; the product's documented '}' rule is taken as given.",
    technique="runtime monitoring: differential oracle (reference runtime-expression evaluator) + trace pairing over recorded stateful histories",
    design_ref="DESIGN.md#c10",
)

CHECKS["C08"] = dict(
    category="exploration",
    text="Generated documents (path/operation-level parameters with overrides, $ref'd and nested-$ref'd parameters, path items behind "
    "$ref, recursive schemas, security schemes, malformed entries, several body media types, Swagger 2.0 body x consumes) are loaded "
    "from a dict, from JSON text, from hand-style YAML (unquoted 200/404, on/off/yes/no keys, ISO timestamps) and from a multi-file "
    "layout with relative references (components in a second file, a path item in another directory next to a decoy file of the "
    "same relative name); all 24 orders of iteration / subscript / by-id / by-reference access plus lookups made while an iteration "
    "is suspended are exercised; YAML keys that read as null/float/int/timestamp are written unquoted; every "
    "offered operation's parameters and body alternatives are compared with an independent computation of its effective inputs "
    "(an active apiKey requirement must yield its parameter, also next to a declared parameter of the same name in another location), "
    "and the YAML-loaded tree with the JSON reading.",
    note="Only name, location, required flag and (inlined) schema of parameters are compared; remote references are out of scope.",
    technique="runtime monitoring: reference model of effective inputs vs observed operations under all access orders and serialisations",
    design_ref="DESIGN.md#c08",
)

CHECKS["C01"] = dict(
    category="exploration",
    text="Positive cases are drawn through operation.as_strategy (the engine's entry point) for operations built from pools of "
    "satisfiable-by-construction schemas in every location (incl. parameters declared with `content`), in OpenAPI 2.0/3.0/3.1, under allow_x00 x codec x security-parameter "
    "settings; the value of each location is captured before serialisation by wrapping the strategy factories and judged by an "
    "independent OpenAPI->JSON Schema reading (request mode: readOnly banned), required-parameter presence, undeclared parameters, "
    "NUL/codec restrictions; Unsatisfiable / zero cases for such an operation is a violation.",
    note="Formats without an exact independent checker and ECMA-only regex features are not judged; pattern semantics = Python re.search.",
    technique="runtime monitoring: raw-value capture at the strategy factories + independent schema oracle over thousands of draws",
    design_ref="DESIGN.md#c01",
)

CHECKS["C02"] = dict(
    category="exploration",
    text="Negative cases are drawn through the strategy the engine builds (modes [negative] and [positive, negative]) for the C01 "
    "document pools plus the classes the statement names ({} schemas, bare string headers/path parameters, additionalProperties-only "
    "objects, optional bodies, no inputs, optional plain-string cookies/headers next to a violable query); per case: case label, at least one declared part labelled negative, each negative part "
    "present and - judged on the raw captured value - invalid for the independent location schema, each positive part valid; "
    "surely-violable operations must yield cases, surely-unviolable ones must be skipped. Negative parts of text locations are also judged "
    "by their text form (a value that reads as valid on the wire is not a violation), and the schema the product's invalidity filter uses "
    "is probed directly with strings drawn from the documented pattern and lengths.",
    note="Violability is only judged for the clear cases; probes ending in a newline are not judged (Python `$` vs ECMA 262).",
    technique="runtime monitoring: raw-value capture + label/content consistency oracle over thousands of draws",
    design_ref="DESIGN.md#c02",
)

CHECKS["C03"] = dict(
    category="exploration",
    text="An exhaustive small grammar of numeric schemas (bounds {absent,-1,0,1,5}, equal, exclusive in both dialects, multipleOf) and of "
    "string schemas (lengths {absent,0,1,3} x patterns), enum/format/example/default/nullable schemas, arrays, objects and "
    "combinators, fixed-size arrays and 3.1 type lists / const are placed in every location of OpenAPI 2.0/3.0/3.1 operations (the "
    "thorough tier adds thousands of random compositions: objects, arrays, anyOf/oneOf/allOf, nullable); for modes {P},{N},{P,N} every value yielded by the "
    "top-level boundary generator (tapped) is validated against the schema it was asked for, and every coverage case is checked for "
    "the labelling rule (negative iff a part is negative or Missing/Duplicate/Unspecified-method) and for part label vs content.",
    note="Author's example/default values (at any depth) are exempt; non-body parts are read through string coercion and all readings of comma-joined arrays; nested containers and free-text items containing the delimiter outside the body are not judged; $ref schemas are not judged at value level.",
    technique="runtime monitoring: generator tap + validity/label oracle over an enumerated schema grammar",
    design_ref="DESIGN.md#c03",
)

CHECKS["C09"] = dict(
    category="exploration",
    text="Hand-built cases with hostile values (quotes, backslashes, $, backticks, ; & | < > ( ), spaces, tabs, empty values, leading "
    "@ and dashes, newlines, non-ASCII in URL and payload) for 6 methods and JSON/text/form/multipart bodies are sent through the real "
    "transport to a recording API (request A); the exact string the failure report prints (as_curl_command with the sent request's "
    "headers, sanitisation off) is executed by `sh -c` with the real curl (request B); A and B are compared on method, raw URL, body "
    "bytes and headers (multipart: part by part, each message read with the boundary it announces). In addition the commands that real "
    "`st run` invocations PRINT for failures (unit and stateful phases, user headers, multi-line and multipart bodies) are cut out of "
    "the report, executed, and must equal one of the failing requests the API received.",
    note="Header values are ASCII and payloads text, as the statement says; client-added headers and the test-case id are ignored, "
    "except when the case, the call or the command line (-H) defines a header of such a name (Accept, User-Agent, Accept-Encoding): "
    "then it is content and compared.",
    technique="runtime monitoring: round-trip differential (sent request vs request produced by executing the printed command)",
    design_ref="DESIGN.md#c09",
)

CHECKS["C16"] = dict(
    category="exploration",
    text="The real CassetteWriter (VCR, HAR; preserve-bytes on/off) and JunitXMLHandler are driven with synthesised event histories "
    "built from real Case/Response/prepared-request objects whose URLs, header values and bodies are hostile (quotes, #, control "
    "characters, \\x85, U+2028, invalid UTF-8, empty/absent bodies, network errors, unknown encodings, cases without metadata, the "
    "same failure re-found under another label), and by real `st run --report vcr,har,junit` runs; the files are parsed with "
    "independent parsers and every delivered exchange is compared field by field (HAR: also cookies, response headers incl. repeated "
    "lines, mimeType); a share of the histories runs with sanitisation on and credentials in the URL (URLs/headers not compared there); "
    "handler exceptions and writer-thread deaths are observed.",
    note="Bodies that are not valid UTF-8 are compared only with preserve-bytes; JUnit is judged for well-formedness, no crash and failure marking.",
    technique="runtime monitoring: offline checker over produced report files (exactly-once, field fidelity) + exception observation",
    design_ref="DESIGN.md#c16",
)

CHECKS["C15"] = dict(
    category="exploration",
    text="Real `st run` invocations (in-process, real argv) with unique high-entropy canaries planted on subsets of the routes a secret "
    "can take (Authorization / X-API-Key / marker-named headers in several spellings and option forms `--header v`, `--header=v`, "
    "`-H v`, `-Hv`, --auth, --set-query/-header/-cookie, URL userinfo with, with an empty and without a user name, response "
    "Set-Cookie and token headers sent on one or several lines) against an API that fails checks so that failures, curl lines and responses are "
    "printed; all emitted bytes (console, JUnit, VCR, HAR; preserve-bytes on/off; custom sanitisation config) are searched for each "
    "canary in raw, percent-encoded, base64 and user:password-base64 form. Sanitisation off must show the canaries of the exercised "
    "routes (otherwise the route does not count).",
    note="Generated security-parameter values are only searched when they are long printable tokens.",
    technique="runtime monitoring: canary (taint) search over every produced artefact",
    design_ref="DESIGN.md#c15",
)

CHECKS["C17"] = dict(
    category="exploration",
    text="Generated documents (OpenAPI 2.0/3.0/3.1) carry unique marker examples at random subsets of the placements the statement "
    "lists (parameter example/examples and x- forms, parameter-schema example/examples, media-type example/examples incl. $ref'd example "
    "objects, body-schema example, property-level (incl. falsy values and a property described by allOf) and anyOf-branch examples, a property carrying anyOf and oneOf at once) with different counts per parameter, required parameters "
    "without examples and an operation without any example; every strategy of get_strategies_from_examples is drawn and each marker "
    "must occur at its place in some case, each case must carry all required inputs and a schema-valid filled-in body; a sample runs "
    "the real examples phase and reads the API's request log and skip events.",
    note="Values outside the body are compared up to string coercion; externalValue needs the network and is out of scope.",
    technique="runtime monitoring: marker (unique id) tracing from document placements to generated cases and received requests",
    design_ref="DESIGN.md#c17",
)

CHECKS["C20"] = dict(
    category="exploration",
    text="Generated SDL schemas (built-in, extra and a registered custom scalar, enums, nested input objects, lists/non-null wrappers, "
    "interfaces/unions, queries and mutations with 0-4 arguments, custom root type names, Subscription roots, the same field name under "
    "both roots) are loaded from SDL and from introspection JSON; for every root field "
    "documents are drawn under graphql_allow_null x allow_x00 x codec and checked with graphql-core's parser and validator, a walk of "
    "the document (exactly one operation of the right kind selecting exactly the field, no null literals when disabled, NUL/codec on "
    "string values, exact parsers for Date/UUID/IPv4/Long/registered scalar); offered operations and selected/total counts are compared "
    "with the name-filter reference.",
    note="graphql-core is the reference for syntax and validation.",
    technique="runtime monitoring: independent validator (graphql-core) + AST walk over generated documents",
    design_ref="DESIGN.md#c20",
)

CHECKS["C06"] = dict(
    category="exploration",
    text="One operation per (location x style x explode x primitive/array/object) for OpenAPI 3.x, per collectionFormat for 2.0, and "
    "JSON `content` parameters, with JSON / form / multipart / text bodies and base URLs with and without base path and trailing slash; positive "
    "cases are generated, their raw values captured before serialisation, and sent through the requests transport to a recording "
    "server (and a share through the WSGI and ASGI transports to capture apps); reference decoders written from the OpenAPI style tables must "
    "recover the generated values from the raw request line / headers / cookies, the path must be base path + template with a "
    "percent-encoded value free of raw reserved characters, bodies must round-trip, Content-Type must equal the media type and no "
    "undeclared header may appear.",
    note="Item alphabets exclude the style's own delimiter; comparison is up to string coercion; the WSGI and ASGI transports are exercised with capture applications (raw scope / environ), about a quarter of the cases.",
    technique="runtime monitoring: raw-value capture + reference style decoders over the server-side request log",
    design_ref="DESIGN.md#c06",
)

NOT_APPLICABLE = {}


def main():
    props = [json.loads(l) for l in open(os.path.join(HERE, "properties.jsonl"))]
    checks = []
    for pid, c in sorted(CHECKS.items()):
        checks.append(
            {
                "property_id": pid,
                "quick_cmd": f"./check {pid} --tier quick",
                "thorough_cmd": f"./check {pid} --tier thorough",
                "evidence_file": f"evidence/{pid}.json",
                "replay_cmd_template": f"./check {pid} --replay {{path}}",
                "engine": "vmon",
                "level_claimed": {"category": c["category"], "text": c["text"], "design_ref": c["design_ref"]},
                "level_note": c["note"],
                "technique": c["technique"],
            }
        )
    na = []
    for p in props:
        if p["id"] not in CHECKS:
            na.append({"property_id": p["id"], "reason": NOT_APPLICABLE.get(p["id"], "check not built yet (work in progress); not claimed")})
    manifest = {
        "version": 1,
        "setup_cmd": "bash tools/setup.sh",
        "hooks": {
            "guard": "SCHEMATHESIS_VERIF",
            "enable": "checks export SCHEMATHESIS_VERIF=1 before importing schemathesis (./check does it); /repo is an editable install, nothing to rebuild",
            "baseline_off_cmd": "bash tools/baseline_off.sh",
            "source_commits": json.load(open(os.path.join(HERE, "tools", "hook_commits.json"))),
            "add_only": True,
        },
        "engines": [
            {
                "name": "vmon",
                "path": "vmon/",
                "serves_properties": sorted(CHECKS),
                "kind_free_text": "runtime monitors: workloads run the real code from /repo under instrumentation (wrappers, guarded schedule/fault points), independent reference oracles judge the recorded events",
            }
        ],
        "checks": checks,
        "not_applicable": na,
        "notes": "Verdicts are three-valued: exit 0 held, exit 1 VIOLATION, exit 2 INCONCLUSIVE (monitor not reached / watchdog). known_findings.json lists genuine defects by mechanism key.",
    }
    with open(os.path.join(HERE, "MANIFEST.json"), "w") as fd:
        json.dump(manifest, fd, indent=1)
        fd.write("\n")


if __name__ == "__main__":
    main()

#!/bin/bash
# Runs the repository's pinned baseline with the verification guard OFF and compares against
# /root/.vp/BASELINE.json's stable_pass list. Exit 0 iff every stable-pass test still passes.
# Extra arguments go to pytest (e.g. `-n 14` to parallelise; any stable test that does not pass in a
# parallel run is re-run serially before it is counted as not passing).
unset SCHEMATHESIS_VERIF
OUT=$(mktemp -d /tmp/verif-baseline.XXXXXX)
trap 'rm -rf "$OUT"' EXIT
# BASELINE_REPO=<git worktree of /repo> runs the suite against that copy (its src first on PYTHONPATH) so
# that /repo can be edited meanwhile; the default is /repo itself.
REPO="${BASELINE_REPO:-/repo}"
cd "$REPO" || exit 2
if [ "$REPO" != "/repo" ]; then export PYTHONPATH="$REPO/src"; fi
/venv/bin/python -m pytest -ra -q -p no:cacheprovider --timeout=900 --continue-on-collection-errors \
   --junitxml="$OUT/run.junit.xml" "$@" > "$OUT/log.txt" 2>&1
tail -n 1 "$OUT/log.txt"
/venv/bin/python - "$OUT" <<'PY'
import json, os, subprocess, sys, xml.etree.ElementTree as ET
out = sys.argv[1]
base = json.load(open("/root/.vp/BASELINE.json"))
stable = set(base["stable_pass"])
def parse(path):
    passed, failed = set(), set()
    for tc in ET.parse(path).getroot().iter("testcase"):
        tid = (tc.get("classname") or "") + "::" + (tc.get("name") or "")
        if tc.find("failure") is not None or tc.find("error") is not None:
            failed.add(tid)
        elif tc.find("skipped") is None:
            passed.add(tid)
    return passed - failed, failed
passed, failed = parse(os.path.join(out, "run.junit.xml"))
def normalise(ids):
    # the id of this parametrised test embeds the machine's CPU count (auto-8 when the baseline was recorded)
    import re
    return {re.sub(r"test_convert_workers\[auto-\d+\]", "test_convert_workers[auto-N]", i) for i in ids}
stable, passed = normalise(stable), normalise(passed)
missing = sorted(stable - passed)
if missing and len(missing) <= 60:
    # re-run serially (xdist / load artefacts)
    nodeids = []
    for tid in missing:
        cls, name = tid.split("::", 1)
        parts = cls.split(".")
        for cut in range(len(parts), 0, -1):
            path = os.path.join(os.environ.get("BASELINE_REPO", "/repo"), *parts[:cut]) + ".py"
            if os.path.exists(path):
                nodeids.append("::".join([path] + parts[cut:] + [name]))
                break
    xml2 = os.path.join(out, "rerun.junit.xml")
    subprocess.run(["/venv/bin/python", "-m", "pytest", "-q", "-p", "no:cacheprovider", "--timeout=900",
                    f"--junitxml={xml2}", *nodeids], cwd=os.environ.get("BASELINE_REPO", "/repo"), stdout=subprocess.DEVNULL, stderr=subprocess.DEVNULL)
    if os.path.exists(xml2):
        p2, _ = parse(xml2)
        passed |= normalise(p2)
        missing = sorted(stable - passed)
print(f"baseline: stable={len(stable)} passed_now={len(passed)} failed_now={len(failed)} stable_not_passing={len(missing)}")
for m in missing[:40]:
    print("  NOT PASSING:", m)
sys.exit(1 if missing else 0)
PY

#!/bin/bash
# usage: tools/try_mutant.sh <patch.diff> <PROP> [tier]  -- applies the patch to /repo, runs the check, reverts.
PATCH="$(realpath "$1")"; PROP="$2"; TIER="${3:-quick}"
cd /verif || exit 2
if ! git -C /repo diff --quiet; then echo "/repo has uncommitted changes"; exit 2; fi
git -C /repo apply "$PATCH" || { echo "patch does not apply"; exit 2; }
./check "$PROP" --tier "$TIER" > /tmp/mutant-$PROP.out 2>&1; code=$?
git -C /repo checkout -- .
grep -E "^VIOLATION|^KNOWN|^INCONCLUSIVE|^  key=|^$PROP tier" /tmp/mutant-$PROP.out | cut -c1-260 | head -12
echo "exit=$code"
git checkout -q -- evidence/$PROP.json 2>/dev/null

#!/bin/bash
# usage: tools/try_mutant.sh <patch.diff> <PROP> [tier]
# Default: applies the patch to /repo, runs the check, reverts (git -C /repo checkout -- .).
# With MUTANT_SCRATCH=1 the patch is applied to a scratch worktree of /repo's HEAD instead and the check runs against
# that copy (VERIF_REPO), so that /repo stays untouched while other checks are running.
PATCH="$(realpath "$1")"; PROP="$2"; TIER="${3:-quick}"
cd /verif || exit 2
if [ -n "$MUTANT_SCRATCH" ]; then
  WT=$(mktemp -d /tmp/verif-mutwt.XXXXXX); rmdir "$WT"
  git -C /repo worktree add -q --detach "$WT" HEAD || exit 2
  trap 'git -C /repo worktree remove --force "$WT" >/dev/null 2>&1; rm -rf "$WT"' EXIT
  git -C "$WT" apply "$PATCH" || { echo "patch does not apply"; exit 2; }
  VERIF_REPO="$WT" ./check "$PROP" --tier "$TIER" > /tmp/mutant-$PROP.out 2>&1; code=$?
else
  if ! git -C /repo diff --quiet; then echo "/repo has uncommitted changes"; exit 2; fi
  git -C /repo apply "$PATCH" || { echo "patch does not apply"; exit 2; }
  ./check "$PROP" --tier "$TIER" > /tmp/mutant-$PROP.out 2>&1; code=$?
  git -C /repo checkout -- .
fi
grep -E "^VIOLATION|^KNOWN|^INCONCLUSIVE|^  key=|^$PROP tier" /tmp/mutant-$PROP.out | cut -c1-260 | head -12
echo "exit=$code"
git checkout -q -- evidence/$PROP.json 2>/dev/null
